//go:debug asynctimerchan=0
//go:build go1.22

package cluster

// C19 — Syncer snapshots are real store states and converge to the final state.
//
// System under test (all real): syncer.run, the four Sync* adapters, cluster
// Get/GetRaw/GetRawPrefix/Put/Delete/DeletePrefix/PutAndDelete on a cluster
// value built in-package around a real etcd clientv3 client (real gRPC, real
// watcher resume logic, real retry interceptor) that is connected over simnet to
// simetcd (harness/simetcd: a single-copy MVCC model of the etcd server).
//
// A run: one syncer (key / raw key / prefix / raw prefix; the executor accepts
// several, the generator emits one, see c19Gen) with a consumer that reads
// promptly or lags (so the 10-slot channel fills); 1-3 phases, each
// with writer tasks (put / same-value put / delete / delete-then-recreate /
// delete-prefix / multi-key txn, on keys under and outside the watched
// key/prefix, issued through the real cluster API or written directly into the
// store as "another member") and a fault task (watch stream break that clientv3
// resumes, fatal stream error that cancels the watch, server stop/start with an
// optional compaction while it is down, compaction, Range errors/slowness up to
// client time-outs, Range answers that leave late, slow watch delivery, lost
// replies); every phase ends with quiet periods (no writes, no faults, prompt
// consumer) after which convergence is checked.
//
// Extensions (each behind a const switch, see c19RealClient etc.):
//   * client "real" (half of the runs): the etcd client is created by the
//     unmodified cluster.getClient from an option.Options value (endpoints from
//     cluster.initial-cluster or, role secondary, primary-listen-peer-urls;
//     auto-sync every minute, dial time-out, keep-alive 1 min / 1 min, option
//     cluster.max-call-send-msg-size in {default 10 MB, 48 KB, 300 KB}). The only
//     harness ingredients are the simnet dialer (hook variable added to a copy
//     of clientv3/client.go that check.json overlays on harness/simetcd/clientv3)
//     and a discarding zap sink for the client's log file. The server side runs
//     with etcd's own gRPC keep-alive enforcement (min ping interval 5 s).
//   * wider alphabets: values that differ only in case / surrounding white space /
//     a trailing byte or are a prefix of one another, values with NUL or invalid
//     UTF-8, values of 4-70 KB that differ only in their last or first bytes or
//     in length (a prefix content then exceeds a 48 KB send limit while every
//     single write is below it); hierarchical key names, names with dot, dash,
//     space, percent, a non-ASCII letter, a key that is another key plus "/";
//     prefix targets "/p" (no trailing slash: also covers "/p0") and "/".
//   * fault "silent" (real client only): the server becomes unreachable WITHOUT
//     its connections being closed (host powered off, partition): established
//     connections are black-holed, dials refused, optionally the server process
//     restarts; afterwards the old connections are reset (rebooted host) or stay
//     silent for ever (then only the client's keep-alive ends them).
//
// Oracle (written from the property statement; the store history comes from
// simetcd, which logs every revision):
//   C19.phantom-snapshot      a delivered snapshot equals no content the watched
//                             key/prefix ever had (at or after the syncer start)
//   C19.raw-metadata-not-a-store-state   (raw adapters) keys/values match a real
//                             state but the KeyValue metadata does not
//   C19.order                 snapshots cannot be embedded order-preservingly in
//                             the store's state sequence (an older state after a
//                             newer one)
//   C19.duplicate-snapshot    two consecutive snapshots are equal
//   C19.no-convergence        after a quiet period the last delivered snapshot is
//                             not the store's content
//   C19.snapshot-mutated      a snapshot changed after it had been delivered
//   C19.channel-closed        the channel was closed while the syncer was open
//
// Observation (NOT a violation of the statement, counted by the probe
// c19.busy_pull_loop_observed): when clientv3 closes the watch channel without
// a Canceled response (fatal stream error while the subscriber was busy for
// more than 250 ms), syncer.run receives zero values for ever and pulls
// back-to-back. The harness detects >150 Range RPCs per virtual second, logs it
// and from then on makes every Range cost 50-250 ms of virtual time, so that the
// run goes on (snapshots and convergence are still judged).
//
// Determinism (added with the extensions, found by `vcheck determinism` on other
// seed bases: 3 of 1500 seeds): tasks released by the scheduler at the end of a
// stall continue in ONE virtual instant; two API calls started then had context
// deadlines in the same instant, and while the server was unreachable the order
// of those two timers decided between "Unavailable" and a transparent retry.
// Hence every writer task uses its own cluster value (same client) whose request
// time-out is a few ns longer; the client is created 173 ns after the start, the
// pull ticker armed at its own sub-microsecond offset, each dial of the real
// client delayed by a few ns of its own (auto-sync, keep-alive and ticker never
// share an instant).
//
// Determinism measures (mismatches=0 over 500 seeds): every harness task and
// every sleep of the simetcd hooks runs on its own sub-microsecond offset (no
// two timers expire in the same instant), handler goroutines pass a gate before
// anything else (canonical names), consumers/writers pass a gate before logging,
// gRPC reconnect back-off without jitter, math/rand reseeded per run, and the Go
// runtime is built with the overlays of harness/simetcd/goroot (seeded select
// order and map seeds for goroutines inside the bubble, ...; see the README
// there). check.json "selects" additionally puts syncer.run's select under the
// recorded scheduler.
//
// Oracle leniency (statement silent / two readings):
//   * a run that exhausts its step budget is not judged (outcome steplimit);
//   * the implicit first snapshot is "empty": a syncer whose target is empty may
//     deliver nothing or an initial empty snapshot;
//   * "content" = key -> value. For the raw adapters a same-value put changes
//     mod_revision/version only; "consecutive snapshots differ" and "is a real
//     state" are judged on the full KeyValue there, convergence on key -> value
//     (stale metadata at the end is counted by a probe, not flagged);
//   * convergence is checked after a quiet period of
//     2*pullInterval + 2*requestTimeout + 2*longest outage + max consumer lag + 3 s
//     (assumes gRPC reconnects within 2*outage+3 s after the server is back). If a
//     late write (client gave up, request still in the network) lands during it,
//     waiting starts again; because the scheduler may stall a run (up to 20 x 60 s
//     while RPCs sit in the network), C19.no-convergence is only reported after
//     30 consecutive quiet periods without any store change and without
//     convergence, i.e. "eventually" is read as "within 30 such periods";
//   * a server-initiated watch cancel WITHOUT compact revision is not generated
//     (etcd only does that in answer to a client cancel / failed creation).
//   * after a silent outage whose connections stay dead the quiet period is 125 s
//     longer (so that a client with a keep-alive of about two minutes normally
//     converges in the first period); the bound that is ASSERTED is the general
//     one: 30 consecutive quiet periods, here more than an hour;
//   * an API write refused by the client-side send limit (ResourceExhausted) is
//     simply a write that did not happen;
//   * the error code of a failed API write is not part of the property.

import (
	"bytes"
	"context"
	"encoding/hex"
	"encoding/json"
	"fmt"
	"math/rand"
	"net"
	"net/url"
	"os"
	"runtime"
	"runtime/debug"
	"sort"
	"strconv"
	"strings"
	"sync"
	"testing"
	"time"
	"unicode/utf8"
	_ "unsafe"

	"go.etcd.io/etcd/api/v3/mvccpb"
	clientv3 "go.etcd.io/etcd/client/v3"
	"go.uber.org/zap"
	"google.golang.org/grpc"
	"google.golang.org/grpc/backoff"
	"google.golang.org/grpc/codes"
	"google.golang.org/grpc/keepalive"
	"google.golang.org/grpc/stats"
	"google.golang.org/grpc/status"

	pb "go.etcd.io/etcd/api/v3/etcdserverpb"

	"github.com/megaease/easegress/pkg/cluster/zzsimetcd"
	"github.com/megaease/easegress/pkg/logger"
	"github.com/megaease/easegress/pkg/option"
	"verif/simkit/hdrv"
	"verif/simkit/sim"
	"verif/simkit/simnet"
)

// c19SelectSeed is runtime.simSelectSeed of the patched runtime/select.go
// (harness/simetcd/goroot): while non-zero, selects of goroutines inside the
// bubble choose among ready cases from a generator seeded with it.
//
//go:linkname c19SelectSeed runtime.simSelectSeed
var c19SelectSeed uint64

// ---- scenario ---------------------------------------------------------------------

type c19KV struct {
	Key string  `json:"key"`
	Val *string `json:"val"` // nil = delete
}

type c19Op struct {
	GapUs int64   `json:"gap_us"`
	Kind  string  `json:"kind"` // put | del | delprefix | txn
	Via   string  `json:"via"`  // direct | api
	Key   string  `json:"key"`
	Val   string  `json:"val"`
	KVs   []c19KV `json:"kvs,omitempty"`
}

type c19Writer struct {
	Ops []c19Op `json:"ops"`
}

type c19Fault struct {
	AtUs    int64  `json:"at_us"`
	Kind    string `json:"kind"` // break | halt | stop | silent | compact | rangeerr | rangeslow | rangelate | watchslow | lostreply
	DurUs   int64  `json:"dur_us"`
	N       int    `json:"n"`
	Code    string `json:"code"` // unavailable | deadline | unknown
	Compact bool   `json:"compact"`
	Back    int64  `json:"back"`
	Heal    string `json:"heal,omitempty"` // silent: reset (the old connections are reset when the server is reachable again) | dead (they stay silent for ever)
}

type c19Phase struct {
	Writers []c19Writer `json:"writers"`
	Faults  []c19Fault  `json:"faults"`
}

type c19Syncer struct {
	Mode    string  `json:"mode"` // key | rawkey | prefix | rawprefix
	Target  string  `json:"target"`
	PullMs  int64   `json:"pull_ms"`
	LagsMs  []int64 `json:"lags_ms"`
	StartUs int64   `json:"start_us"`
}

type c19Scenario struct {
	Seed         int64       `json:"seed"`
	ReqTimeoutMs int64       `json:"req_timeout_ms"`
	NetDelayUs   []int64     `json:"net_delay_us"`
	LatencyUs    int64       `json:"latency_us"`
	Bulk         int         `json:"bulk"` // keys /p/k0000.. loaded directly into the store before anything else
	Init         []c19Op     `json:"init"`
	Syncers      []c19Syncer `json:"syncers"`
	Phases       []c19Phase  `json:"phases"`
	// Client "real": the etcd client is created by the unmodified
	// cluster.getClient from an option.Options value (endpoints from the options,
	// auto-sync, dial time-out, keep-alive and cluster.max-call-send-msg-size as
	// in production); "" = created by the harness with a bare clientv3.Config.
	Alphabet  string `json:"alphabet,omitempty"` // informational: which key/value alphabet the generator used
	Client    string `json:"client,omitempty"`
	Role      string `json:"role,omitempty"`        // primary | secondary (which option carries the endpoints)
	MaxSendKB int    `json:"max_send_kb,omitempty"` // option cluster.max-call-send-msg-size in KB, 0 = the option's default (10 MB)
}

var c19Keys = []string{"/p/a", "/p/a", "/p/a", "/p/a1", "/p/b", "/p/b", "/p/c", "/p0", "/p", "/q/a"}
var c19Vals = []string{"v1", "v1", "v2", "v2", "v3", ""}

// Wider alphabets (generator switch c19WideAlphabets). A value is written in a
// notation that c19Expand turns into the bytes stored: "hex:<hex digits>" are
// raw bytes (not valid UTF-8, NUL, ...), "big:<n>:<head|tail>:<tag>" is a value
// of n bytes (a fixed filler with the tag at its head or tail, so two of them
// differ only in their first bytes, only in their last bytes, or only in
// length); anything else is literal.
var (
	// differ only in case, surrounding white space, a trailing byte, or are a
	// prefix of one another ("hex:7631" IS "v1": a same-value put)
	c19ValsNear = []string{"v1", "v1", "V1", "v1 ", " v1", "v1\n", "v", "v11", "", "hex:7631", "hex:763100"}
	c19ValsBin  = []string{"hex:00", "hex:ff", "hex:fffe", "hex:c328", "hex:e282ac", "", "hex:0000", "hex:ff"}
	c19ValsBig  = []string{"big:4097:tail:a", "big:4097:tail:b", "big:20001:head:a", "big:20001:tail:a", "big:20001:tail:b",
		"big:20002:tail:a", "big:70001:tail:a", "big:70001:head:b", "v1", ""}
	// hierarchical names, names with a dot/dash/space/percent/non-ASCII letter,
	// a key that is another key plus "/"
	c19KeysDeep = []string{"/p/a", "/p/a", "/p/a/", "/p/a/b", "/p/a/b", "/p/a.b-c_d", "/p/\u00fc", "/p/a b", "/p/%2F", "/p", "/p0", "/q/a", "/p/a1"}
)

type c19Alphabet struct {
	name          string
	keys, vals    []string
	prefixT, keyT []string // targets of prefix / key syncers
	delPrefixes   []string
}

var c19Plain = c19Alphabet{name: "plain", keys: c19Keys, vals: c19Vals,
	prefixT: []string{"/p/", "/p/", "/p/a"}, keyT: []string{"/p/a", "/p/a", "/p/b"}, delPrefixes: []string{"/p/", "/p/a", "/p", "/q/"}}

func c19PickAlphabet(rng *sim.Rand) c19Alphabet {
	a := c19Plain
	if !c19WideAlphabets {
		return a
	}
	switch x := rng.Intn(100); {
	case x < 40:
	case x < 62:
		a.name, a.vals = "near", c19ValsNear
	case x < 72:
		a.name, a.vals = "bin", c19ValsBin
	default:
		a.name, a.vals = "big", c19ValsBig
	}
	if rng.Bool(0.3) {
		a.name += "+deep"
		a.keys = c19KeysDeep
		a.prefixT = []string{"/p/", "/p/a", "/p/a/", "/p", "/"}
		a.keyT = []string{"/p/a", "/p/a/", "/p/a b", "/p/\u00fc", "/p", "/p/a/b"}
		a.delPrefixes = []string{"/p/", "/p/a", "/p/a/", "/p", "/q/"}
	}
	return a
}

// c19Expand turns the value notation of a scenario into the stored bytes.
func c19Expand(v string) string {
	switch {
	case strings.HasPrefix(v, "hex:"):
		if b, err := hex.DecodeString(v[4:]); err == nil {
			return string(b)
		}
	case strings.HasPrefix(v, "big:"):
		f := strings.Split(v, ":")
		if len(f) != 4 {
			return v
		}
		n, err := strconv.Atoi(f[1])
		if err != nil || n < len(f[3]) || n > 1<<20 || (f[2] != "head" && f[2] != "tail") {
			return v
		}
		b := make([]byte, n)
		for i := range b {
			b[i] = "0123456789abcdefghijklmnopqrstuvwxyz"[i%36]
		}
		if f[2] == "head" {
			copy(b, f[3])
		} else {
			copy(b[n-len(f[3]):], f[3])
		}
		return string(b)
	}
	return v
}

// c19ValStr renders a value for fingerprints and messages: short ones quoted,
// long ones as length + hash + both ends.
func c19ValStr(b []byte) string {
	if len(b) <= 40 {
		return strconv.Quote(string(b))
	}
	h := uint64(14695981039346656037)
	for i := 0; i < len(b); i++ {
		h = (h ^ uint64(b[i])) * 1099511628211
	}
	return fmt.Sprintf("<%d bytes fnv %016x %q..%q>", len(b), h, b[:6], b[len(b)-6:])
}

func c19GenOp(rng *sim.Rand, burst int, a c19Alphabet) c19Op {
	op := c19Op{}
	gaps := []int64{0, 0, 0, 1, 1307, 52_101, 303_217, 1_500_733}
	switch burst {
	case 0: // bursty
		gaps = []int64{0, 0, 0, 0, 1, 97}
	case 1: // slow
		gaps = []int64{52_101, 303_217, 1_500_733, 2_700_011}
	}
	op.GapUs = gaps[rng.Intn(len(gaps))]
	op.Via = rng.PickStr("direct", "api")
	op.Key = a.keys[rng.Intn(len(a.keys))]
	op.Val = a.vals[rng.Intn(len(a.vals))]
	switch x := rng.Intn(100); {
	case x < 55:
		op.Kind = "put"
	case x < 80:
		op.Kind = "del"
	case x < 88:
		op.Kind = "delprefix"
		op.Key = a.delPrefixes[rng.Intn(len(a.delPrefixes))]
	default:
		op.Kind = "txn"
		n := rng.Range(1, 4)
		seen := map[string]bool{}
		for i := 0; i < n; i++ {
			k := a.keys[rng.Intn(len(a.keys))]
			if seen[k] {
				continue
			}
			seen[k] = true
			kv := c19KV{Key: k}
			if rng.Bool(0.65) {
				v := a.vals[rng.Intn(len(a.vals))]
				kv.Val = &v
			}
			op.KVs = append(op.KVs, kv)
		}
	}
	return op
}

// c19GenBig is the rare scenario class "big prefix": 501-1200 keys under the
// prefix before the syncer starts, a Range latency, and a steady stream of
// direct transactions that change a key at the low end AND a key at the high
// end of the key order in one revision (sometimes a delete-prefix of the first
// hundred bulk keys plus a put at the high end), while pulls are in flight. A
// pull that is not ONE consistent read (e.g. pages read at different revisions)
// then delivers a content no revision ever had. Few, cheap operations otherwise.
func c19GenBig(rng *sim.Rand) *c19Scenario {
	sc := &c19Scenario{}
	sc.Seed = int64(rng.Uint64() >> 1)
	sc.ReqTimeoutMs = int64(rng.Pick(1700, 7300))
	sc.Bulk = rng.Pick(501, 501, 600, 999, 1001, 1200)
	sc.LatencyUs = int64(rng.Pick(211, 3109, 3109))
	if rng.Bool(0.3) {
		sc.NetDelayUs = []int64{137}
	}
	if c19RealClient && rng.Bool(0.5) {
		sc.Client = "real"
		sc.Role = rng.PickStr("primary", "secondary")
		sc.MaxSendKB = rng.Pick(0, 0, 48, 300)
	}
	s := c19Syncer{Mode: rng.PickStr("prefix", "rawprefix"), Target: "/p/", PullMs: int64(rng.Pick(200, 1000)), LagsMs: []int64{0}, StartUs: int64(rng.Pick(0, 1009))}
	sc.Syncers = append(sc.Syncers, s)
	ph := c19Phase{}
	wr := c19Writer{}
	for i, n := 0, rng.Range(8, 16); i < n; i++ {
		v := fmt.Sprintf("w%d", i)
		op := c19Op{GapUs: int64(rng.Pick(1307, 3001, 5003, 9001)), Kind: "txn", Via: "direct",
			KVs: []c19KV{{Key: "/p/a", Val: &v}, {Key: "/p/zz", Val: &v}}}
		switch rng.Intn(10) {
		case 0:
			op.KVs = []c19KV{{Key: "/p/a", Val: nil}, {Key: "/p/zz", Val: nil}}
		case 1:
			op.KVs = []c19KV{{Key: "/p/a", Val: &v}, {Key: "/p/k0000", Val: &v}, {Key: fmt.Sprintf("/p/k%04d", sc.Bulk-1), Val: &v}}
		}
		wr.Ops = append(wr.Ops, op)
		if rng.Bool(0.08) {
			wr.Ops = append(wr.Ops, c19Op{GapUs: 1307, Kind: "delprefix", Via: "direct", Key: "/p/k00"},
				c19Op{GapUs: 0, Kind: "put", Via: "direct", Key: "/p/zz", Val: "after-delete"})
		}
	}
	ph.Writers = append(ph.Writers, wr)
	sc.Phases = append(sc.Phases, ph)
	return sc
}

func c19Gen(rng *sim.Rand, tier string) interface{} {
	if rng.Bool(0.04) {
		return c19GenBig(rng)
	}
	sc := &c19Scenario{}
	sc.Seed = int64(rng.Uint64() >> 1)
	sc.ReqTimeoutMs = int64(rng.Pick(330, 1700, 1700, 7300))
	switch rng.Intn(4) {
	case 1:
		sc.NetDelayUs = []int64{137}
	case 2:
		sc.NetDelayUs = []int64{53, 1103, 7019}
	}
	sc.LatencyUs = int64(rng.Pick(0, 0, 211, 3109))
	alpha := c19PickAlphabet(rng)
	sc.Alphabet = alpha.name
	for i, n := 0, rng.Intn(4); i < n; i++ {
		op := c19GenOp(rng, 2, alpha)
		op.Via, op.GapUs = "direct", 0
		sc.Init = append(sc.Init, op)
	}
	// One syncer per run. (The executor supports several, but two syncers woken
	// by the same network delivery proceed in an order chosen by the Go
	// scheduler's run queue, which is not reproducible in ~0.3% of the runs.)
	ns := 1
	for i := 0; i < ns; i++ {
		s := c19Syncer{Mode: rng.PickStr("key", "rawkey", "prefix", "rawprefix")}
		if strings.HasSuffix(s.Mode, "prefix") {
			s.Target = alpha.prefixT[rng.Intn(len(alpha.prefixT))]
		} else {
			s.Target = alpha.keyT[rng.Intn(len(alpha.keyT))]
		}
		s.PullMs = int64(rng.Pick(200, 1000, 10000))
		switch rng.Intn(4) {
		case 0:
			s.LagsMs = []int64{0}
		case 1:
			s.LagsMs = []int64{0, 0, 13, 0, 501}
		case 2:
			s.LagsMs = []int64{701, 2903}
			if rng.Bool(0.5) {
				s.LagsMs = []int64{2903, 2903, 9001}
			}
		default:
			s.LagsMs = []int64{0, 97}
		}
		s.StartUs = int64(rng.Pick(0, 0, 1, 1009, 400_003))
		sc.Syncers = append(sc.Syncers, s)
	}
	if c19RealClient && rng.Bool(0.5) {
		sc.Client = "real"
		sc.Role = rng.PickStr("primary", "secondary")
		sc.MaxSendKB = rng.Pick(0, 0, 48, 300)
	}
	// three pairwise different values of the alphabet for the steady writers
	steadyVals := []string{"v1", "v2", "v3"}
	switch strings.TrimSuffix(alpha.name, "+deep") {
	case "near":
		steadyVals = []string{"v1", "V1", "v1 "}
	case "bin":
		steadyVals = []string{"hex:00", "hex:0000", "hex:ff"}
	case "big":
		steadyVals = []string{"big:4097:tail:a", "big:4097:tail:b", "big:20001:head:a"}
	}
	silentLeft := 1 // at most one silent outage per run (each costs minutes of virtual time)
	np := rng.Range(1, 3)
	for p := 0; p < np; p++ {
		ph := c19Phase{}
		nw := rng.Range(1, 3)
		var longest int64
		for w := 0; w < nw; w++ {
			wr := c19Writer{}
			burst := rng.Intn(3)
			nops := rng.Range(1, 8)
			steady := rng.Bool(0.15)
			if steady {
				// a steady stream of changes of the watched keys, one pull each:
				// this is what fills the 10-slot channel of a lagging consumer
				nops = rng.Range(11, 18)
			}
			var total int64
			for i, n := 0, nops; i < n; i++ {
				op := c19GenOp(rng, burst, alpha)
				if steady {
					op.GapUs = int64(rng.Pick(1307, 5003, 52_101))
					if rng.Bool(0.8) {
						op.Kind, op.KVs = "put", nil
						op.Key = rng.PickStr("/p/a", "/p/a", "/p/b")
						op.Val = steadyVals[i%3]
					}
				}
				total += op.GapUs
				wr.Ops = append(wr.Ops, op)
			}
			if total > longest {
				longest = total
			}
			ph.Writers = append(ph.Writers, wr)
		}
		nf := rng.Pick(0, 0, 1, 1, 2, 3)
		for f := 0; f < nf; f++ {
			ft := c19Fault{AtUs: int64(rng.Intn(int(longest)+2000)) | 1}
			switch x := rng.Intn(100); {
			case x < 14:
				ft.Kind = "break"
			case x < 30:
				ft.Kind = "halt"
			case x < 50:
				ft.Kind = "stop"
				ft.DurUs = int64(rng.Pick(1_003, 200_017, 1_300_021, 3_700_029))
				ft.Compact = rng.Bool(0.5)
				if c19SilentOutage && sc.Client == "real" && silentLeft > 0 && sc.Syncers[0].PullMs >= 1000 && rng.Bool(0.3) {
					// the server vanishes WITHOUT closing its connections (host
					// powered off, network partition); Compact = the process restarts
					silentLeft--
					ft.Kind = "silent"
					ft.Heal = rng.PickStr("reset", "dead", "dead")
					ft.DurUs = int64(rng.Pick(200_017, 3_700_029, 17_000_041))
				}
			case x < 60:
				ft.Kind = "compact"
				ft.Back = int64(rng.Pick(0, 0, 1, 3))
			case x < 75:
				ft.Kind = "rangeerr"
				ft.N = rng.Pick(1, 1, 2, 5)
				ft.Code = rng.PickStr("unavailable", "deadline", "unknown", "unknown")
			case x < 85:
				ft.Kind = rng.PickStr("rangeslow", "rangeslow", "rangelate")
				ft.N = rng.Pick(1, 2, 3)
				ft.DurUs = int64(rng.Pick(20_011, 400_009, 2_100_013, 9_000_007))
			case x < 94:
				ft.Kind = "watchslow"
				ft.N = rng.Pick(1, 3, 10)
				ft.DurUs = int64(rng.Pick(5_003, 250_007, 2_500_009))
			default:
				ft.Kind = "lostreply"
				ft.N = rng.Pick(1, 2)
			}
			ph.Faults = append(ph.Faults, ft)
		}
		sort.SliceStable(ph.Faults, func(i, j int) bool { return ph.Faults[i].AtUs < ph.Faults[j].AtUs })
		sc.Phases = append(sc.Phases, ph)
	}
	if silentLeft == 0 {
		// a fatal watch stream error can leave syncer.run pulling back-to-back (see
		// the header: busy pull loop, throttled to 20 pulls per second); together
		// with the minutes of quiet time a silent outage needs, that exhausts the
		// step budget: such runs get the resumable stream break instead
		for pi := range sc.Phases {
			for fi := range sc.Phases[pi].Faults {
				if sc.Phases[pi].Faults[fi].Kind == "halt" {
					sc.Phases[pi].Faults[fi].Kind = "break"
				}
			}
		}
	}
	return sc
}

// ---- simulated environment ------------------------------------------------------------

type c19Env struct {
	r     *sim.Run
	sc    *c19Scenario
	net   *simnet.Net
	store *zzsimetcd.Store
	srv   *zzsimetcd.Server
	gs    *grpc.Server
	hooks zzsimetcd.Hooks
	up    bool

	// fault budgets, consumed by the hooks
	rangeErrLeft   int
	rangeErrCode   codes.Code
	rangeSlowLeft  int
	rangeSlowDur   time.Duration
	rangeLateLeft  int
	rangeLateDur   time.Duration
	watchSlowLeft  int
	watchSlowDur   time.Duration
	lostReplyLeft  int
	pullErrors     int
	rangeCalls     int
	nonce          int
	rangeAt        []time.Duration
	busy           bool
	lastHalt       time.Duration
	awaitFirstPull bool
	deadSince      time.Duration
	streak         int
	streakRev      int64
	streakAt       time.Duration
}

// sleep lets d pass plus a few nanoseconds that are different for every call:
// goroutines released in the same instant then never wake in the same instant
// (timers expiring together fire in an order the runtime does not reproduce).
func (e *c19Env) sleep(d time.Duration) {
	e.nonce++
	time.Sleep(d + 400*time.Nanosecond + time.Duration(e.nonce%599)*time.Nanosecond)
}

const c19Addr = "etcd:2379"

// Generator switches of the later extensions (false = the generator range
// before that extension).
const (
	c19RealClient    = true // etcd client created by cluster.getClient from options
	c19WideAlphabets = true // values that differ minimally / binary / 4-70 KB, hierarchical and odd key names, more targets
	c19SilentOutage  = true // fault kind "silent": server unreachable without its connections being closed (needs c19RealClient: keep-alive)
)

// c19Rounds: see the quiet-period loop in c19Exec.
const c19Rounds = 30

// c19BusyRanges: see the busy-loop detector in unaryHook.
const c19BusyRanges = 150

// c19BusyStreak: more than any burst of watch responses a scenario can produce
// (3 writers x 18 operations) for one store revision.
const c19BusyStreak = 120

// c19DbgConn / c19DbgLis log every Write (development aid, C19_DEBUG_IO=1).
type c19DbgConn struct {
	net.Conn
	r    *sim.Run
	side string
}

func (c *c19DbgConn) Write(b []byte) (int, error) {
	n, err := c.Conn.Write(b)
	c.r.Eventf("%s writes %d bytes -> %d %v", c.side, len(b), n, err)
	return n, err
}

func (c *c19DbgConn) Read(b []byte) (int, error) {
	n, err := c.Conn.Read(b)
	c.r.Eventf("%s read -> %d %v", c.side, n, err)
	return n, err
}

func (c *c19DbgConn) Close() error {
	c.r.Eventf("%s closes the connection", c.side)
	return c.Conn.Close()
}

type c19DbgLis struct {
	net.Listener
	r *sim.Run
}

func (l *c19DbgLis) Accept() (net.Conn, error) {
	c, err := l.Listener.Accept()
	if err != nil {
		return nil, err
	}
	return &c19DbgConn{Conn: c, r: l.r, side: "server"}, nil
}

var c19DebugIO = os.Getenv("C19_DEBUG_IO") != ""

func (e *c19Env) start() {
	lis, err := e.net.Listen("tcp", c19Addr)
	if err != nil {
		panic(err)
	}
	if c19DebugIO {
		lis = &c19DbgLis{Listener: lis, r: e.r}
	}
	e.srv = zzsimetcd.NewServer(e.store)
	e.srv.Hooks = e.hooks
	// etcd's own server options (embed defaults): pings of a client at least 5 s
	// apart are fine (grpc's default of 5 min would answer the 1-minute pings
	// of cluster.getClient's configuration with GOAWAY too_many_pings)
	e.gs = grpc.NewServer(
		grpc.KeepaliveEnforcementPolicy(keepalive.EnforcementPolicy{MinTime: 5 * time.Second, PermitWithoutStream: false}),
		grpc.KeepaliveParams(keepalive.ServerParameters{Time: 2 * time.Hour, Timeout: 20 * time.Second}))
	e.srv.Register(e.gs)
	gs := e.gs
	go gs.Serve(lis)
	e.up = true
}

func (e *c19Env) stop() {
	if !e.up {
		return
	}
	e.up = false
	e.gs.Stop()
	e.srv.Close()
}

func (e *c19Env) unaryHook(ctx context.Context, ph zzsimetcd.Phase, method string, req interface{}) error {
	r := e.r
	if ph == zzsimetcd.Before {
		// first gate of the handler goroutine, before any sleep: goroutine names
		// (the scheduler's canonical order) are assigned at the first gate and
		// must not depend on the order in which same-instant timers fire
		r.Yield("etcd.rpc")
		if r.Aborted() {
			// the step budget is used up and gates no longer park anybody: make
			// every RPC cost virtual time so that a caller spinning in zero
			// time cannot keep the clock (and the harness' wind-down) from advancing
			time.Sleep(10 * time.Millisecond)
			return nil
		}
		r.Eventf("rpc %s arrives", method)
		if method == "MemberList" {
			r.Probe("client_auto_sync_member_list")
		}
		slept := false
		if e.sc.LatencyUs > 0 {
			e.sleep(time.Duration(e.sc.LatencyUs) * time.Microsecond)
			slept = true
		}
		if method == "Range" {
			e.rangeCalls++
			// busy-loop detector: more than c19BusyRanges Range RPCs within one
			// second of virtual time (legitimate: 1/pullInterval + one per watch
			// response + clientv3 retries every 25 ms)
			now := r.Now()
			e.rangeAt = append(e.rangeAt, now)
			for len(e.rangeAt) > 0 && now-e.rangeAt[0] > time.Second {
				e.rangeAt = e.rangeAt[1:]
			}
			// second criterion (a busy loop slowed down by network delay stays
			// below 150 per second): c19BusyStreak Range RPCs in a row, each less than 150 ms
			// after its predecessor and none refused, while the store revision did
			// not change. Legitimate pulls without a store change are the ticker's
			// (at least 200 ms apart), retries of refused ones, and one pull per
			// watch response of a burst that is already complete in the store.
			if rev := e.store.Rev(); rev == e.streakRev && now-e.streakAt < 150*time.Millisecond && e.rangeErrLeft == 0 {
				e.streak++
			} else {
				e.streak, e.streakRev = 0, rev
			}
			e.streakAt = now
			if (len(e.rangeAt) > c19BusyRanges || e.streak >= c19BusyStreak) && !e.busy {
				// OBSERVATION, not a violation of the C19 statement (snapshots stay
				// correct and convergence holds): syncer.run pulls back-to-back. It
				// happens when clientv3 closed the watch channel without a Canceled
				// response (fatal stream error while the subscriber was busy for more
				// than 250 ms): `resp := <-watchChan` then yields zero values for ever.
				// From here on every Range costs 50-250 ms of virtual time, so that the run
				// can go on (and all rules are still judged) instead of spinning in
				// zero time.
				e.busy = true
				r.Probe("c19.busy_pull_loop_observed")
				r.Eventf("OBSERVATION busy pull loop: %d Range RPCs within one virtual second, %d in a row without a store change, at %v (%d watch streams open, last fatal watch stream error at %v); Range is throttled from now on",
					len(e.rangeAt), e.streak, now, e.srv.OpenWatchStreams(), e.lastHalt)
			}
			if e.busy {
				// let virtual time pass, otherwise the spinning caller keeps the
				// clock (and the end of the run) from advancing
				// (a quarter of the request time-out, 50..250 ms: the pulls still
				// succeed, but a run with a 10 s pull interval no longer spends 60000
				// steps in its quiet periods)
				d := time.Duration(e.sc.ReqTimeoutMs) * time.Millisecond / 4
				if d < 50*time.Millisecond {
					d = 50 * time.Millisecond
				}
				if d > 250*time.Millisecond {
					d = 250 * time.Millisecond
				}
				time.Sleep(d)
				r.Yield("etcd.wake")
			}
			if e.rangeSlowLeft > 0 {
				e.rangeSlowLeft--
				r.Fault("etcd.range_slow")
				e.sleep(e.rangeSlowDur)
				slept = true
			}
		}
		if slept {
			r.Yield("etcd.wake")
		}
		if method == "Range" && e.awaitFirstPull {
			e.awaitFirstPull = false
			if e.rangeErrLeft > 0 {
				r.Probe("first_pull_of_the_syncer_refused_with_error")
			}
		}
		if method == "Range" && e.rangeErrLeft > 0 {
			e.rangeErrLeft--
			r.Fault("etcd.range_error." + e.rangeErrCode.String())
			if e.rangeErrCode == codes.Unknown {
				e.pullErrors++
			}
			return status.Error(e.rangeErrCode, "simetcd: injected failure")
		}
		return nil
	}
	if method == "Range" && e.rangeLateLeft > 0 {
		// the read is done; its answer leaves late (a later read may overtake it)
		e.rangeLateLeft--
		r.Fault("etcd.range_reply_late")
		e.sleep(e.rangeLateDur)
		r.Yield("etcd.wake")
	}
	if method != "Range" && e.lostReplyLeft > 0 {
		r.Yield("etcd.reply")
	}
	if method != "Range" && e.lostReplyLeft > 0 {
		e.lostReplyLeft--
		r.Fault("etcd.reply_lost_after_apply")
		return status.Error(codes.Unavailable, "simetcd: reply lost")
	}
	return nil
}

func (e *c19Env) watchSendHook(streamID int64, resp *pb.WatchResponse) error {
	e.r.Yield("etcd.watchsend") // streams notified by the same revision send in scheduler order
	e.r.Eventf("watch stream %d sends %d events canceled=%v compact=%d rev %d", streamID, len(resp.Events), resp.Canceled, resp.CompactRevision, resp.Header.Revision)
	if e.watchSlowLeft > 0 {
		e.watchSlowLeft--
		e.r.Fault("etcd.watch_slow_delivery")
		e.sleep(e.watchSlowDur)
		e.r.Yield("etcd.wake")
	}
	return nil
}

func (e *c19Env) clearFaults() {
	e.rangeErrLeft, e.rangeSlowLeft, e.watchSlowLeft, e.lostReplyLeft, e.rangeLateLeft = 0, 0, 0, 0, 0
}

// ---- oracle helpers --------------------------------------------------------------------

func c19KVString(kv *mvccpb.KeyValue, raw bool) string {
	if kv == nil {
		return "<nil>"
	}
	if raw {
		return fmt.Sprintf("%q=%s(c%d,m%d,v%d,l%x)", kv.Key, c19ValStr(kv.Value), kv.CreateRevision, kv.ModRevision, kv.Version, kv.Lease)
	}
	return fmt.Sprintf("%q=%s", kv.Key, c19ValStr(kv.Value))
}

// c19Finger renders a projected content canonically.
func c19Finger(m map[string]*mvccpb.KeyValue, raw bool) string {
	ks := make([]string, 0, len(m))
	for k := range m {
		ks = append(ks, k)
	}
	sort.Strings(ks)
	var b strings.Builder
	b.WriteString("{")
	for _, k := range ks {
		kv := m[k]
		if kv == nil {
			fmt.Fprintf(&b, "%q=<nil-kv>;", k)
			continue
		}
		if string(kv.Key) != k {
			fmt.Fprintf(&b, "[map key %q]", k)
		}
		b.WriteString(c19KVString(kv, raw))
		b.WriteString(";")
	}
	b.WriteString("}")
	return b.String()
}

type c19State struct {
	rev      int64
	val, raw string
}

// c19Project computes the sequence of contents of the target (one entry per
// revision in which the projected raw content changed, plus the initial one).
func c19Project(hist []*zzsimetcd.RevRecord, target string, prefix bool, fromRev int64) []c19State {
	sel := func(k string) bool {
		if prefix {
			return strings.HasPrefix(k, target)
		}
		return k == target
	}
	cur := map[string]*mvccpb.KeyValue{}
	states := []c19State{{rev: 1, val: c19Finger(cur, false), raw: c19Finger(cur, true)}}
	// contents before fromRev are not rendered one by one (a bulk-loaded prefix
	// would cost a fingerprint of >1000 keys per revision): only the last
	// content at or before fromRev is
	pendingRev := int64(0)
	flush := func() {
		if pendingRev != 0 {
			states = append(states, c19State{rev: pendingRev, val: c19Finger(cur, false), raw: c19Finger(cur, true)})
			pendingRev = 0
		}
	}
	for _, rec := range hist {
		if rec.Rev > fromRev {
			flush()
		}
		changed := false
		for _, ev := range rec.Events {
			k := string(ev.Kv.Key)
			if !sel(k) {
				continue
			}
			changed = true
			if ev.Type == mvccpb.DELETE {
				delete(cur, k)
			} else {
				cur[k] = ev.Kv
			}
		}
		if changed {
			pendingRev = rec.Rev
			if rec.Rev > fromRev {
				flush()
			}
		}
	}
	flush()
	return states
}

// c19Short abbreviates a long fingerprint for messages and events.
func c19Short(x string) string {
	if len(x) <= 400 {
		return x
	}
	h := uint64(14695981039346656037)
	for i := 0; i < len(x); i++ {
		h = (h ^ uint64(x[i])) * 1099511628211
	}
	return fmt.Sprintf("%s ...[%d bytes, fnv %016x]... %s", x[:200], len(x), h, x[len(x)-120:])
}

type c19Snap struct {
	val, raw string
	at       time.Duration
	orig     interface{} // the delivered object (to detect later mutation)
	origFP   string
}

type c19Sync struct {
	cfg      c19Syncer
	idx      int
	prefix   bool
	raw      bool
	syncer   Syncer
	startRev int64
	snaps    []c19Snap
	closed   bool
	closing  bool
	full     bool
	recv     func() (c19Snap, bool)
	chanLen  func() int
}

func c19FPOf(v interface{}) string {
	switch x := v.(type) {
	case *string:
		if x == nil {
			return "<nil>"
		}
		return c19ValStr([]byte(*x))
	case *mvccpb.KeyValue:
		return c19KVString(x, true)
	case map[string]string:
		ks := make([]string, 0, len(x))
		for k := range x {
			ks = append(ks, k)
		}
		sort.Strings(ks)
		var b strings.Builder
		for _, k := range ks {
			fmt.Fprintf(&b, "%q=%s;", k, c19ValStr([]byte(x[k])))
		}
		return b.String()
	case map[string]*mvccpb.KeyValue:
		return c19Finger(x, true)
	}
	return "?"
}

// c19YieldOnTransparentRetry yields the processor at the start of every
// TRANSPARENT retry attempt of an RPC. grpc-go 1.46 retries an RPC whose stream
// could not be created because the transport is closing (ErrConnClosing)
// immediately and without limit, and keeps picking the same transport until
// its reader goroutine has noticed the dead connection. Between the exit of
// the transport's writer (write error, e.g. a 70 KB request to a stopped
// server) and the next run of the reader that loop never blocks; with real
// threads the reader runs in parallel, under the bubble's single cooperative
// processor the loop span until sysmon preempted it after 5 s of REAL time
// (3 of 500 runs took 5.4 s each). Normal attempts are not touched.
type c19YieldOnTransparentRetry struct{}

func (c19YieldOnTransparentRetry) TagRPC(ctx context.Context, _ *stats.RPCTagInfo) context.Context {
	return ctx
}
func (c19YieldOnTransparentRetry) HandleRPC(_ context.Context, s stats.RPCStats) {
	if b, ok := s.(*stats.Begin); ok && b.IsTransparentRetryAttempt {
		runtime.Gosched()
	}
}
func (c19YieldOnTransparentRetry) TagConn(ctx context.Context, _ *stats.ConnTagInfo) context.Context {
	return ctx
}
func (c19YieldOnTransparentRetry) HandleConn(context.Context, stats.ConnStats) {}

type c19NullSink struct{}

func (c19NullSink) Write(b []byte) (int, error) { return len(b), nil }
func (c19NullSink) Sync() error                 { return nil }
func (c19NullSink) Close() error                { return nil }

var c19SinkOnce sync.Once

// c19CloseClient closes the cluster's etcd client but leaves the (closed)
// client in place: cluster.closeClient would clear the field, and a straggler
// of an aborted run (step budget exhausted, tasks not waited for) calling the
// API afterwards would make getClient create a NEW client - by then with the
// dial options of the NEXT run of this process.
func c19CloseClient(cl *cluster) {
	if c := cl.client; c != nil {
		c.Close()
	}
}

// c19SizeOf is the number of value bytes of a delivered snapshot.
func c19SizeOf(v interface{}) int {
	n := 0
	switch x := v.(type) {
	case *string:
		if x != nil {
			n = len(*x)
		}
	case *mvccpb.KeyValue:
		if x != nil {
			n = len(x.Value)
		}
	case map[string]string:
		for _, e := range x {
			n += len(e)
		}
	case map[string]*mvccpb.KeyValue:
		for _, e := range x {
			if e != nil {
				n += len(e.Value)
			}
		}
	}
	return n
}

// ---- executor ---------------------------------------------------------------------------

func c19Exec(r *sim.Run, sci interface{}) {
	sc := sci.(*c19Scenario)
	// validity guard: the minimiser also shrinks numbers; a request time-out or
	// pull interval below the generator's range (330 ms / 200 ms) makes every
	// pull fail or the run spin, and "no convergence" would then be reproduced
	// for a reason that has nothing to do with the original finding
	if len(sc.Syncers) == 0 || sc.ReqTimeoutMs < 300 {
		return
	}
	for _, s := range sc.Syncers {
		if s.PullMs < 200 || s.Target == "" {
			return
		}
	}
	rand.Seed(sc.Seed) // clientv3's retry jitter draws from the global source
	c19SelectSeed = uint64(sc.Seed) | 1
	defer func() { c19SelectSeed = 0 }()

	n := simnet.New()
	if len(sc.NetDelayUs) > 0 {
		// the first segment of each direction is not delayed: the delivery
		// goroutines pass their first gate (= get their canonical name) without
		// having slept until the same instant
		// (and the two directions use different delays, so that their delivery
		// goroutines do not wake in the same instant)
		ds, dr := []time.Duration{0}, []time.Duration{0}
		for _, d := range sc.NetDelayUs {
			if d < 0 {
				d = 0
			}
			ds = append(ds, time.Duration(d)*time.Microsecond)
			dr = append(dr, time.Duration(d)*time.Microsecond*11/10+3*time.Microsecond+time.Duration(211))
		}
		n.PlanFor = func(id int, addr string) (simnet.DirPlan, simnet.DirPlan) {
			return simnet.DirPlan{Delays: ds}, simnet.DirPlan{Delays: dr}
		}
	}
	env := &c19Env{r: r, sc: sc, net: n, store: zzsimetcd.NewStore()}
	env.hooks = zzsimetcd.Hooks{Unary: env.unaryHook, WatchSend: env.watchSendHook,
		StreamOpen: func(ctx context.Context, method string) error { r.Yield("etcd.stream"); return nil }}
	env.start()

	// reset here, not in a deferred call: the Exec of an aborted run (step budget)
	// may never return, and the next run of the process must not inherit its dialer
	clientv3.SimExtraDialOptions = nil
	dialOpts := []grpc.DialOption{grpc.WithContextDialer(func(ctx context.Context, addr string) (net.Conn, error) {
		if sc.Client == "real" {
			// the keep-alive timer of a transport (1 minute) is armed right after
			// its dial: not in the instant in which the client armed its auto-sync
			// timer (also 1 minute) or a caller its request time-out (README rule:
			// no two timers for the same instant)
			env.sleep(0)
			if env.deadSince > 0 && r.Now()-env.deadSince > time.Minute {
				// nothing closed the black-holed connection from outside: this dial
				// follows the client's own keep-alive giving up on it
				env.deadSince = 0
				r.Probe("client_redialled_after_keep_alive_gave_up_on_silent_connection")
			}
		}
		c, err := n.Dial(ctx, "tcp", addr)
		if err == nil && c19DebugIO {
			c = &c19DbgConn{Conn: c, r: r, side: "client"}
		}
		return c, err
	}),
		// gRPC's default reconnect back-off (1s * 1.6^n, max 120s) without its
		// jitter, which is drawn from a generator seeded with the wall clock
		grpc.WithConnectParams(grpc.ConnectParams{Backoff: backoff.Config{BaseDelay: time.Second, Multiplier: 1.6, Jitter: 0, MaxDelay: 120 * time.Second}, MinConnectTimeout: 20 * time.Second}),
		grpc.WithStatsHandler(c19YieldOnTransparentRetry{})}
	reqTimeout := time.Duration(sc.ReqTimeoutMs) * time.Millisecond
	cl := &cluster{requestTimeout: reqTimeout, done: make(chan struct{})}
	if sc.Client == "real" {
		// the client is created by cluster.getClient itself (first use), from
		// options; the only harness ingredients are the dial options above (added
		// through the hook variable of the overlaid clientv3/client.go) and a
		// discarding sink for the client's log file
		c19SinkOnce.Do(func() {
			zap.RegisterSink("c19null", func(*url.URL) (zap.Sink, error) { return c19NullSink{}, nil })
		})
		opt := &option.Options{AbsLogDir: "c19null://x"}
		if sc.Role == "secondary" {
			opt.ClusterRole = "secondary"
			opt.Cluster.PrimaryListenPeerURLs = []string{"http://" + c19Addr}
		} else {
			opt.ClusterRole = "primary"
			opt.Cluster.InitialCluster = map[string]string{"member-1": "http://" + c19Addr}
		}
		opt.Cluster.MaxCallSendMsgSize = 10 * 1024 * 1024 // the option's default
		if sc.MaxSendKB > 0 {
			opt.Cluster.MaxCallSendMsgSize = sc.MaxSendKB * 1024
		}
		cl.opt = opt
		clientv3.SimExtraDialOptions = dialOpts
		defer func() { clientv3.SimExtraDialOptions = nil }()
		// the client's auto-sync timer (1 minute) is armed now: not at a round
		// instant (a scheduler stall that starts at instant 0 ends at a round
		// instant, and so would every tick of a ticker created right after it)
		time.Sleep(173 * time.Nanosecond)
		// as in production (cluster.getReady) the client exists before anybody
		// asks for a syncer; the server is up at this point
		if _, err := cl.getClient(); err != nil {
			r.Violate("C19.harness", "cluster.getClient: %v", err)
			env.stop()
			env.store.Close()
			n.Shutdown()
			return
		}
		r.Probe("client_created_by_cluster_getClient")
	} else {
		cli, err := clientv3.New(clientv3.Config{
			Endpoints:   []string{c19Addr},
			Logger:      zap.NewNop(),
			DialOptions: dialOpts,
		})
		if err != nil {
			r.Violate("C19.harness", "clientv3.New: %v", err)
			return
		}
		cl.client = cli
	}
	if lg, err := env.store.LeaseGrant(&pb.LeaseGrantRequest{TTL: 3600 * 24 * 365}); err == nil {
		id := clientv3.LeaseID(lg.ID)
		cl.lease = &id
	}

	// Every writer task calls the cluster API through its own cluster value
	// (same etcd client, same lease) whose request time-out is a few nanoseconds
	// longer than the syncer's: tasks released by the scheduler in the same
	// virtual instant (after a stall) otherwise start RPCs whose context
	// deadlines expire in the same instant, and while the server is unreachable
	// the order in which those two timers fire decided whether a write failed
	// with Unavailable or was transparently retried by gRPC (seen as 3 of 1500
	// seeds with different trace hashes).
	apiClusters := map[string]*cluster{}
	apiCluster := func(who string, slot int) *cluster {
		if c := apiClusters[who]; c != nil {
			return c
		}
		c := &cluster{requestTimeout: reqTimeout + time.Duration(3+2*slot), client: cl.client, lease: cl.lease, done: cl.done, opt: cl.opt}
		apiClusters[who] = c
		return c
	}
	apply := func(who string, slot int, op c19Op) {
		cl := apiCluster(who, slot)
		via := op.Via
		if via != "api" {
			via = "direct"
		}
		var err error
		switch op.Kind {
		case "put":
			if via == "api" {
				err = cl.Put(op.Key, c19Expand(op.Val))
			} else {
				env.store.PutKV(op.Key, c19Expand(op.Val))
			}
		case "del":
			if via == "api" {
				err = cl.Delete(op.Key)
			} else {
				env.store.DeleteKey(op.Key)
			}
		case "delprefix":
			if op.Key == "" {
				return
			}
			if via == "api" {
				err = cl.DeletePrefix(op.Key)
			} else {
				env.store.DeletePrefix(op.Key)
			}
		case "txn":
			if len(op.KVs) == 0 {
				return
			}
			kvs := map[string]*string{}
			for _, kv := range op.KVs {
				if kv.Key == "" {
					continue
				}
				kvs[kv.Key] = kv.Val
				if kv.Val != nil {
					x := c19Expand(*kv.Val)
					kvs[kv.Key] = &x
				}
			}
			if via == "api" {
				err = cl.PutAndDelete(kvs)
			} else {
				ks := make([]string, 0, len(kvs))
				for k := range kvs {
					ks = append(ks, k)
				}
				sort.Strings(ks)
				req := &pb.TxnRequest{}
				for _, k := range ks {
					if v := kvs[k]; v != nil {
						req.Success = append(req.Success, &pb.RequestOp{Request: &pb.RequestOp_RequestPut{RequestPut: &pb.PutRequest{Key: []byte(k), Value: []byte(*v)}}})
					} else {
						req.Success = append(req.Success, &pb.RequestOp{Request: &pb.RequestOp_RequestDeleteRange{RequestDeleteRange: &pb.DeleteRangeRequest{Key: []byte(k)}}})
					}
				}
				_, err = env.store.Txn(req)
			}
		default:
			return
		}
		res := "ok"
		if err != nil {
			if status.Code(err) == codes.ResourceExhausted {
				r.Probe("api_write_refused_by_max_call_send_msg_size")
			}
			res = "err:" + status.Code(err).String()
			if c19DebugIO {
				res += " (" + err.Error() + ")"
			}
		}
		if via == "api" && who != "init" {
			// calls that end at the same instant (same deadline) return in an
			// order the runtime picks: pass a gate before anything observable
			r.Yield("api-returned")
		}
		what := fmt.Sprintf("%s=%q", op.Key, op.Val)
		if op.Kind == "txn" {
			what = ""
			for _, kv := range op.KVs {
				if kv.Val == nil {
					what += kv.Key + "=<del> "
				} else {
					what += fmt.Sprintf("%s=%q ", kv.Key, *kv.Val)
				}
			}
		}
		r.Eventf("%s %s %s %s %s -> rev %d", who, via, op.Kind, what, res, env.store.Rev())
	}

	if sc.Bulk > 0 {
		// a big prefix population (more than one page of any paginated read),
		// loaded in transactions of 100 puts
		nb := sc.Bulk
		if nb > 5000 {
			nb = 5000
		}
		for i := 0; i < nb; i += 100 {
			req := &pb.TxnRequest{}
			for j := i; j < i+100 && j < nb; j++ {
				req.Success = append(req.Success, &pb.RequestOp{Request: &pb.RequestOp_RequestPut{RequestPut: &pb.PutRequest{Key: []byte(fmt.Sprintf("/p/k%04d", j)), Value: []byte("x")}}})
			}
			env.store.Txn(req)
		}
		r.Eventf("bulk: %d keys under /p/k loaded, store rev %d", nb, env.store.Rev())
		r.Probe("big_prefix_more_than_500_keys")
	}
	for _, op := range sc.Init {
		op.Via = "direct"
		apply("init", 0, op)
	}

	// ---- syncers and consumers
	prompt := false
	var syncs []*c19Sync
	for i, cfg := range sc.Syncers {
		s := &c19Sync{cfg: cfg, idx: i}
		switch cfg.Mode {
		case "key":
		case "rawkey":
			s.raw = true
		case "prefix":
			s.prefix = true
		case "rawprefix":
			s.prefix, s.raw = true, true
		default:
			continue
		}
		syncs = append(syncs, s)
	}
	if len(syncs) == 0 {
		c19CloseClient(cl)
		env.stop()
		env.store.Close()
		n.Shutdown()
		return
	}
	for _, s := range syncs {
		s := s
		r.Go(fmt.Sprintf("cons%d", s.idx), func() {
			// every task runs on its own sub-microsecond offset (all other
			// durations are whole microseconds), so that timers armed by different
			// tasks never expire at the same instant (ties fire in an order the
			// runtime does not reproduce)
			r.Sleep(time.Duration(s.cfg.StartUs)*time.Microsecond + time.Duration(101+13*s.idx))
			// the second syncer's interval is 1.337us longer: two tickers armed in
			// the same instant (both watch creations answered by one delivery) would
			// otherwise tie on every tick
			// (and every interval is 1.013us longer than a round number: the
			// scheduler's stalls last 1us..60s, all multiples of no such interval, so
			// a stall that begins in a tick instant does not end in one - there the
			// tick would race with the release of the parked tasks)
			sy, err := cl.Syncer(time.Duration(s.cfg.PullMs)*time.Millisecond + 1013*time.Nanosecond + time.Duration(s.idx)*1337*time.Nanosecond)
			if err != nil {
				r.Violate("C19.harness", "Syncer: %v", err)
				return
			}
			s.syncer = sy
			// the pull ticker is armed at the instant Sync* is called: give that
			// instant its own sub-microsecond offset (this task may just have been
			// released at the end of a scheduler stall, i.e. at an instant that is a
			// round duration after the one in which another timer was armed)
			time.Sleep(time.Duration(557 + 29*s.idx))
			s.startRev = env.store.Rev()
			if !env.up {
				r.Probe("syncer_started_while_server_down")
			}
			env.awaitFirstPull = true
			one := func(k string, kv *mvccpb.KeyValue) map[string]*mvccpb.KeyValue {
				m := map[string]*mvccpb.KeyValue{}
				if kv != nil {
					m[k] = kv
				}
				return m
			}
			switch s.cfg.Mode {
			case "key":
				ch, _ := sy.Sync(s.cfg.Target)
				s.chanLen = func() int { return len(ch) }
				s.recv = func() (c19Snap, bool) {
					v, ok := <-ch
					if !ok {
						return c19Snap{}, false
					}
					var m map[string]*mvccpb.KeyValue
					if v != nil {
						m = one(s.cfg.Target, &mvccpb.KeyValue{Key: []byte(s.cfg.Target), Value: []byte(*v)})
					} else {
						m = one(s.cfg.Target, nil)
					}
					return c19Snap{val: c19Finger(m, false), orig: v}, true
				}
			case "rawkey":
				ch, _ := sy.SyncRaw(s.cfg.Target)
				s.chanLen = func() int { return len(ch) }
				s.recv = func() (c19Snap, bool) {
					v, ok := <-ch
					if !ok {
						return c19Snap{}, false
					}
					k := s.cfg.Target
					if v != nil {
						k = string(v.Key)
					}
					m := one(k, v)
					return c19Snap{val: c19Finger(m, false), raw: c19Finger(m, true), orig: v}, true
				}
			case "prefix":
				ch, _ := sy.SyncPrefix(s.cfg.Target)
				s.chanLen = func() int { return len(ch) }
				s.recv = func() (c19Snap, bool) {
					v, ok := <-ch
					if !ok {
						return c19Snap{}, false
					}
					m := map[string]*mvccpb.KeyValue{}
					for k, x := range v {
						m[k] = &mvccpb.KeyValue{Key: []byte(k), Value: []byte(x)}
					}
					return c19Snap{val: c19Finger(m, false), orig: v}, true
				}
			case "rawprefix":
				ch, _ := sy.SyncRawPrefix(s.cfg.Target)
				s.chanLen = func() int { return len(ch) }
				s.recv = func() (c19Snap, bool) {
					v, ok := <-ch
					if !ok {
						return c19Snap{}, false
					}
					return c19Snap{val: c19Finger(v, false), raw: c19Finger(v, true), orig: v}, true
				}
			}
			r.Eventf("sync%d %s %q started at rev %d", s.idx, s.cfg.Mode, s.cfg.Target, s.startRev)
			for k := 0; ; k++ {
				if s.chanLen() >= 10 {
					s.full = true
				}
				snap, ok := s.recv()
				if !ok {
					s.closed = true
					if !s.closing {
						r.Violate("C19.channel-closed", "sync%d: channel closed although the syncer was not closed", s.idx)
					}
					return
				}
				snap.origFP = c19FPOf(snap.orig)
				r.Yield("received") // consumers woken by the same delivery log in scheduler order
				snap.at = r.Now()
				s.snaps = append(s.snaps, snap)
				shown := snap.val
				if s.raw {
					shown = snap.raw
				}
				r.Eventf("sync%d snapshot #%d %s (store rev %d)", s.idx, len(s.snaps), c19Short(shown), env.store.Rev())
				lag := time.Duration(0)
				if !prompt && len(s.cfg.LagsMs) > 0 {
					lag = time.Duration(s.cfg.LagsMs[k%len(s.cfg.LagsMs)]) * time.Millisecond
				}
				if lag < 0 {
					lag = 0
				}
				r.Sleep(lag)
			}
		})
	}

	var maxLag, maxPull time.Duration
	for _, s := range syncs {
		for _, l := range s.cfg.LagsMs {
			if d := time.Duration(l) * time.Millisecond; d > maxLag {
				maxLag = d
			}
		}
		if d := time.Duration(s.cfg.PullMs) * time.Millisecond; d > maxPull {
			maxPull = d
		}
		if d := time.Duration(s.cfg.StartUs) * time.Microsecond; d > maxLag {
			maxLag = d
		}
	}

	// converged reports whether every syncer's last delivered snapshot equals
	// the store's present content (key -> value); otherwise it describes the
	// first one that does not.
	converged := func() (bool, string) {
		hist := env.store.History()
		for _, s := range syncs {
			if s.syncer == nil {
				continue
			}
			states := c19Project(hist, s.cfg.Target, s.prefix, 1<<62)
			final := states[len(states)-1]
			lastVal, lastRaw := states[0].val, states[0].raw // implicit initial snapshot: empty
			if len(s.snaps) > 0 {
				lastVal, lastRaw = s.snaps[len(s.snaps)-1].val, s.snaps[len(s.snaps)-1].raw
			}
			if lastVal != final.val {
				return false, fmt.Sprintf("sync%d (%s %q, pull %dms): store content is %s (since rev %d, store rev %d) but the last of %d delivered snapshots is %s",
					s.idx, s.cfg.Mode, s.cfg.Target, s.cfg.PullMs, c19Short(final.val), final.rev, env.store.Rev(), len(s.snaps), c19Short(lastVal))
			}
			if s.raw && len(s.snaps) > 0 && lastRaw != final.raw {
				r.Probe("raw_metadata_stale_after_same_value_put")
			}
		}
		return true, ""
	}

	// ---- phases
	maxDown := time.Duration(0)
	for pi, ph := range sc.Phases {
		if r.Violated() || r.Aborted() {
			break
		}
		prompt = false
		var wg sync.WaitGroup
		for wi, wr := range ph.Writers {
			wi, wr := wi, wr
			wg.Add(1)
			r.Go(fmt.Sprintf("p%dw%d", pi, wi), func() {
				defer wg.Done()
				r.Sleep(time.Duration(7 * (wi + 1)))
				for _, op := range wr.Ops {
					if r.Violated() || r.Aborted() {
						return
					}
					g := op.GapUs
					if g < 0 {
						g = 0
					}
					r.Sleep(time.Duration(g) * time.Microsecond)
					apply(fmt.Sprintf("p%dw%d", pi, wi), 1+pi*8+wi%8, op)
				}
			})
		}
		faults := ph.Faults
		phaseExtra := time.Duration(0)
		wg.Add(1)
		r.Go(fmt.Sprintf("p%dfaults", pi), func() {
			defer wg.Done()
			r.Sleep(time.Duration(307))
			t0 := r.Now()
			for _, f := range faults {
				if r.Violated() || r.Aborted() {
					return
				}
				if d := time.Duration(f.AtUs)*time.Microsecond - (r.Now() - t0); d > 0 {
					r.Sleep(d)
				} else {
					r.Sleep(0)
				}
				dur := time.Duration(f.DurUs) * time.Microsecond
				if dur < 0 {
					dur = 0
				}
				if dur > 20*time.Second {
					dur = 20 * time.Second
				}
				nn := f.N
				if nn <= 0 {
					nn = 1
				}
				switch f.Kind {
				case "break":
					k := env.srv.BreakWatchStreams(status.Error(codes.Unavailable, "simetcd: watch stream broken"))
					if k > 0 {
						r.Fault("etcd.watch_stream_break")
					}
					r.Eventf("fault break (%d streams)", k)
				case "halt":
					k := env.srv.BreakWatchStreams(status.Error(codes.Unknown, "simetcd: fatal watch stream error"))
					if k > 0 {
						r.Fault("etcd.watch_stream_fatal")
						env.lastHalt = r.Now()
					}
					r.Eventf("fault halt (%d streams)", k)
				case "silent":
					if sc.Client != "real" {
						// a client without keep-alive (harness-made) would never notice
						break
					}
					// the server becomes unreachable and nobody is told: established
					// connections go silent in both directions, new ones are refused
					for _, c := range n.Conns() {
						c.Blackhole()
					}
					n.SetDown(c19Addr, true)
					if f.Compact {
						env.stop() // the process is gone too; its FINs vanish
					}
					r.Fault("net.silent_outage")
					r.Eventf("fault silent outage for %v (process restarts: %v, old connections afterwards: %s)", dur, f.Compact, f.Heal)
					if f.Heal != "reset" {
						// the client's keep-alive (1 min idle + 1 min time-out, cluster.go)
						// is what ends a connection that stays silent: this phase's quiet
						// periods are that much longer
						phaseExtra = 125 * time.Second
						env.deadSince = r.Now()
						r.Probe("silent_outage_old_connection_stays_dead")
					}
					if dur > maxDown {
						maxDown = dur
					}
					dead := n.Conns()
					r.Sleep(dur)
					if f.Compact {
						env.start()
					}
					n.SetDown(c19Addr, false)
					if f.Heal == "reset" {
						// the rebooted host answers the old connections' packets with RST
						for _, c := range dead {
							c.Reset()
						}
						r.Probe("silent_outage_old_connection_reset_at_heal")
					}
					r.Eventf("server reachable again at rev %d", env.store.Rev())
				case "stop":
					env.stop()
					r.Fault("etcd.server_stop")
					r.Eventf("fault stop for %v", dur)
					if dur > maxDown {
						maxDown = dur
					}
					r.Sleep(dur)
					if f.Compact {
						if _, err := env.store.Compact(env.store.Rev()); err == nil {
							r.Fault("etcd.compact_while_down")
						}
					}
					env.start()
					r.Eventf("server started again at rev %d", env.store.Rev())
				case "compact":
					rev := env.store.Rev() - f.Back
					if _, err := env.store.Compact(rev); err == nil {
						r.Fault("etcd.compact")
						r.Eventf("fault compact at %d", rev)
					}
				case "rangeerr":
					env.rangeErrLeft = nn
					switch f.Code {
					case "unavailable":
						env.rangeErrCode = codes.Unavailable
					case "deadline":
						env.rangeErrCode = codes.DeadlineExceeded
					default:
						env.rangeErrCode = codes.Unknown
					}
				case "rangeslow":
					env.rangeSlowLeft, env.rangeSlowDur = nn, dur
				case "rangelate":
					env.rangeLateLeft, env.rangeLateDur = nn, dur
				case "watchslow":
					env.watchSlowLeft, env.watchSlowDur = nn, dur
				case "lostreply":
					env.lostReplyLeft = nn
				}
			}
		})
		wg.Wait()
		if r.Violated() || r.Aborted() {
			break
		}
		// quiet period: no writes, no faults, prompt consumers
		env.clearFaults()
		prompt = true
		quiet := 2*maxPull + 2*reqTimeout + 2*maxDown + maxLag + 3*time.Second + phaseExtra
		r.Eventf("phase %d: activity over at rev %d, quiet for %v", pi, env.store.Rev(), quiet)
		// Bounded liveness. One quiet period normally suffices. It does not when
		// (a) a write whose client gave up is still in flight and lands later (then
		// the waiting starts again) or (b) the scheduler stalls the run (at most 20
		// times, up to 60 s of virtual time each, while RPCs sit in the network):
		// hence a violation is only reported after c19Rounds consecutive quiet
		// periods without any store change and without convergence.
		rounds, restarts := 0, 0
		for {
			rev0 := env.store.Rev()
			for left := quiet; left > 0 && !r.Aborted(); left -= 500 * time.Millisecond {
				d := left
				if d > 500*time.Millisecond {
					d = 500 * time.Millisecond
				}
				r.Sleep(d)
			}
			if r.Aborted() || r.Violated() {
				break
			}
			if env.store.Rev() != rev0 && restarts < 20 {
				restarts++
				rounds = 0
				r.Probe("late_write_landed_in_quiet_period")
				continue
			}
			ok, why := converged()
			if ok {
				if rounds > 0 {
					r.Probe("converged_only_after_several_quiet_periods")
				}
				break
			}
			rounds++
			if rounds >= c19Rounds {
				r.Violate("C19.no-convergence", "%s after %d quiet periods of %v (no write, no fault) following phase %d; now %v", why, rounds, quiet, pi, r.Now())
				break
			}
		}
		if r.Aborted() {
			break
		}
	}

	// ---- wind down
	for _, s := range syncs {
		s.closing = true
	}
	prompt = true
	// give consumers that have not started yet the chance to do so, then close
	r.Sleep(maxLag + time.Millisecond)
	for _, s := range syncs {
		if s.syncer != nil {
			s.syncer.Close()
		}
	}
	aborted := r.Aborted()
	if !aborted {
		r.WaitTasks()
	}
	c19CloseClient(cl)
	env.stop()
	env.store.Close()
	n.Shutdown()
	if aborted || r.Aborted() {
		// not a statement violation: the outcome "steplimit" is counted by the driver
		r.Probe("c19.step_budget_exhausted")
		return
	}
	if r.Violated() {
		return
	}

	// ---- post-hoc oracle over the complete history
	hist := env.store.History()
	var sig strings.Builder
	total, writesAfterStart := 0, 0
	for _, s := range syncs {
		if s.syncer == nil {
			continue
		}
		states := c19Project(hist, s.cfg.Target, s.prefix, s.startRev)
		pick := func(st c19State) string {
			if s.raw {
				return st.raw
			}
			return st.val
		}
		// first admissible state: the content at the syncer's start
		p := 0
		for i, st := range states {
			if st.rev <= s.startRev {
				p = i
			}
		}
		if len(states)-1 > p {
			writesAfterStart += len(states) - 1 - p
		}
		describe := func() string {
			var b strings.Builder
			fmt.Fprintf(&b, "sync%d %s %q pull %dms started at rev %d\nstore states:", s.idx, s.cfg.Mode, s.cfg.Target, s.cfg.PullMs, s.startRev)
			for i, st := range states {
				if i > 40 {
					b.WriteString(" ...")
					break
				}
				fmt.Fprintf(&b, " [%d]rev%d:%s", i, st.rev, c19Short(pick(st)))
			}
			b.WriteString("\ndelivered:")
			for i, sn := range s.snaps {
				if i > 40 {
					b.WriteString(" ...")
					break
				}
				x := sn.val
				if s.raw {
					x = sn.raw
				}
				fmt.Fprintf(&b, " #%d@%v:%s", i+1, sn.at, c19Short(x))
			}
			return b.String()
		}
		prev := ""
		for i, sn := range s.snaps {
			got := sn.val
			if s.raw {
				got = sn.raw
			}
			if i == 0 && sn.val == states[0].val {
				// an initial empty snapshot: accepted (the implicit one made explicit)
				r.Probe("initial_empty_snapshot_delivered")
			} else if i > 0 && got == prev {
				r.Violate("C19.duplicate-snapshot", "snapshot #%d equals snapshot #%d: %s\n%s", i+1, i, c19Short(got), describe())
				return
			}
			prev = got
			j := -1
			for k := p; k < len(states); k++ {
				if pick(states[k]) == got {
					j = k
					break
				}
			}
			if j < 0 {
				older, valOnly := -1, -1
				for k := 0; k < len(states); k++ {
					if pick(states[k]) == got && older < 0 {
						older = k
					}
					if states[k].val == sn.val && valOnly < 0 {
						valOnly = k
					}
				}
				switch {
				case older >= 0:
					r.Violate("C19.order", "snapshot #%d %s is store state [%d], older than the state [%d] an earlier snapshot (or the start) already reflected\n%s", i+1, c19Short(got), older, p, describe())
				case s.raw && valOnly >= 0:
					r.Violate("C19.raw-metadata-not-a-store-state", "snapshot #%d %s has the keys/values of store state [%d] but KeyValue metadata the store never had\n%s", i+1, c19Short(got), valOnly, describe())
				default:
					r.Violate("C19.phantom-snapshot", "snapshot #%d %s equals no content the store ever had (for a big prefix: e.g. a mix of two revisions)\n%s", i+1, c19Short(got), describe())
				}
				return
			}
			p = j
			if fp := c19FPOf(sn.orig); fp != sn.origFP {
				r.Violate("C19.snapshot-mutated", "snapshot #%d was %s when delivered and is %s now\n%s", i+1, c19Short(sn.origFP), c19Short(fp), describe())
				return
			}
		}
		total += len(s.snaps)
		for _, sn := range s.snaps {
			if c19SizeOf(sn.orig) > 48*1024 {
				r.Probe("snapshot_content_over_48KB")
				break
			}
		}
		if s.full {
			r.Probe("channel_full_10_slots")
		}
		if len(s.snaps) >= 3 {
			r.Probe("three_or_more_snapshots")
		}
		fmt.Fprintf(&sig, "%s|%s|", s.cfg.Mode, s.cfg.Target)
		for _, sn := range s.snaps {
			sig.WriteString(sn.val)
		}
	}
	st := env.srv.Stats
	if st.CompactCancels > 0 {
		r.Probe("watch_cancelled_by_compaction_seen_by_last_incarnation")
	}
	if env.pullErrors > 0 {
		r.Probe("pull_failed_with_error")
	}
	// same-value puts and delete-then-recreate actually happened?
	lastVal := map[string]string{}
	deleted := map[string]bool{}
	for _, rec := range hist {
		for _, ev := range rec.Events {
			k := string(ev.Kv.Key)
			if ev.Type == mvccpb.DELETE {
				deleted[k] = true
				delete(lastVal, k)
				continue
			}
			if v, ok := lastVal[k]; ok && v == string(ev.Kv.Value) {
				r.Probe("same_value_put")
			} else if ok {
				nv := string(ev.Kv.Value)
				switch {
				case strings.EqualFold(v, nv) || strings.TrimSpace(v) == strings.TrimSpace(nv):
					r.Probe("value_changed_only_in_case_or_white_space")
				case len(v) > 4096 && len(v) == len(nv) && v[:4096] == nv[:4096]:
					r.Probe("big_value_changed_only_after_its_first_4096_bytes")
				case len(v) != len(nv) && (strings.HasPrefix(v, nv) || strings.HasPrefix(nv, v)):
					r.Probe("value_changed_to_a_prefix_or_extension_of_itself")
				}
			}
			if !utf8.Valid(ev.Kv.Value) || bytes.IndexByte(ev.Kv.Value, 0) >= 0 {
				r.Probe("value_not_utf8_or_with_nul")
			}
			if len(ev.Kv.Value) > 65536 {
				r.Probe("value_over_64KB")
			}
			if len(k) > 1 && (strings.ContainsAny(k[1:], " %.\u00fc") || strings.HasSuffix(k, "/") || strings.Count(k, "/") > 2) {
				r.Probe("odd_or_hierarchical_key_name")
			}
			if deleted[k] {
				r.Probe("delete_then_recreate")
				deleted[k] = false
			}
			lastVal[k] = string(ev.Kv.Value)
		}
	}
	if sc.Alphabet != "" && sc.Alphabet != "plain" {
		for _, part := range strings.Split(sc.Alphabet, "+") {
			r.Probe("alphabet_" + part)
		}
	}
	if total >= 2 && writesAfterStart >= 1 {
		r.Nontrivial()
	}
	r.SetSig(sig.String())
}

func TestVerifC19(t *testing.T) {
	logger.InitNop()
	hdrv.Main(t, &hdrv.Harness{
		ID:       "C19",
		Gen:      c19Gen,
		New:      func() interface{} { return &c19Scenario{} },
		Exec:     c19Exec,
		MaxSteps: 100000,
		Rule: "scenario = 1 syncer (key/rawkey/prefix/rawprefix, pull 200ms/1s/10s, prompt or lagging consumer) on a cluster whose etcd client is made by the harness or by cluster.getClient from options (max-call-send-msg-size default/48KB/300KB) + 1-3 phases of writer tasks (put/same-value put/delete/recreate/delete-prefix/txn, under and outside the target, via the cluster API or directly in the store; value alphabets plain / minimally different / binary / 4-70 KB, plain or hierarchical+odd key names) and timed faults (stream break, fatal stream error, server stop/start with optional compaction, silent outage with reset or dead connections, compaction, Range error/slowness, slow watch delivery, lost reply), each phase followed by a quiet period; " +
			"non-trivial = at least two snapshots were delivered and the target changed after the syncer started; distinct = distinct (mode, target, delivered value sequence)",
		Real: []string{"pkg/cluster syncer.run, Sync/SyncRaw/SyncPrefix/SyncRawPrefix, cluster.Get*/Put/Delete/DeletePrefix/PutAndDelete (instrumented sync)", "cluster.getClient with option.Options (half of the runs): endpoints, auto-sync, keep-alive, max-call-send-msg-size", "go.etcd.io/etcd/client/v3 (watcher resume, retry interceptor)", "google.golang.org/grpc client and server over simnet"},
		Stub: []string{"etcd server = simetcd (single-copy MVCC model with history, compaction, watch streams; harness/simetcd)", "cluster value built in-package (no embedded etcd, no heartbeat; client pre-set by the harness or created by getClient through a simnet dialer hook in an overlaid copy of clientv3/client.go; the client's log file goes to a discarding zap sink)", "network = simnet"},
		Assumptions: []string{
			"first snapshot: an empty target may yield no snapshot or one empty snapshot",
			"content = key->value; raw adapters: real-state and consecutive-differ rules use the full KeyValue, convergence uses key->value",
			"convergence is required after a quiet period of 2*pull + 2*requestTimeout + 2*longest outage + max consumer lag + 3s",
			"server-initiated watch cancel without compact revision is not generated",
			"silent outage with dead connections: quiet period 125 s longer; asserted bound stays 30 quiet periods (> 1 h)",
			"an API write refused by the send limit did not happen; the error code of a failed API write is not judged",
			"silent outages are generated only with the client made by cluster.getClient (a client without keep-alive never notices a dead connection) and pull >= 1 s; runs with a silent outage replace fatal watch stream errors by resumable breaks (step budget)",
			"select order inside syncer.run / clientv3 / grpc is chosen by the Go runtime (not by the seeded scheduler)",
		},
	})
}

// TestC19DebugDeterminism (development aid, only with C19_DEBUG_SEED set): runs
// one seed several times with step tracing and writes the logs to /tmp.
func TestC19DebugDeterminism(t *testing.T) {
	seedStr := os.Getenv("C19_DEBUG_SEED")
	if seedStr == "" {
		t.Skip("C19_DEBUG_SEED not set")
	}
	if cnt := os.Getenv("C19_DEBUG_FEATURES"); cnt != "" {
		from, _ := strconv.ParseUint(seedStr, 10, 64)
		k, _ := strconv.Atoi(cnt)
		for sd := from; sd < from+uint64(k); sd++ {
			sc := c19Gen(sim.NewRand(sim.Mix(sd, 1)), "quick").(*c19Scenario)
			kinds := map[string]int{}
			api := 0
			for _, ph := range sc.Phases {
				for _, f := range ph.Faults {
					kinds[f.Kind]++
				}
				for _, w := range ph.Writers {
					for _, op := range w.Ops {
						if op.Via == "api" {
							api++
						}
					}
				}
			}
			b, _ := json.Marshal(map[string]interface{}{"seed": sd, "syncers": len(sc.Syncers), "netdelay": len(sc.NetDelayUs), "latency": sc.LatencyUs, "faults": kinds, "phases": len(sc.Phases), "api": api, "req": sc.ReqTimeoutMs, "pull": sc.Syncers[0].PullMs, "client": sc.Client, "maxsend": sc.MaxSendKB})
			fmt.Println("FEAT", string(b))
		}
		return
	}
	seed, _ := strconv.ParseUint(seedStr, 10, 64)
	logger.InitNop()
	debug.SetGCPercent(-1)
	n := 2
	if v := os.Getenv("C19_DEBUG_N"); v != "" {
		n, _ = strconv.Atoi(v)
	}
	first := ""
	for i := 0; i < n; i++ {
		sc0 := c19Gen(sim.NewRand(sim.Mix(seed, 1)), "quick")
		b, _ := json.Marshal(sc0)
		sc := &c19Scenario{}
		json.Unmarshal(b, sc)
		res := sim.Execute(t, sim.Options{Seed: sim.Mix(seed, 2), TraceSteps: true, KeepLog: 200000, MaxSteps: c19DebugMaxSteps()}, func(r *sim.Run) { c19Exec(r, sc) })
		os.WriteFile(fmt.Sprintf("/tmp/c19-trace-%d.txt", i), []byte(strings.Join(res.Log, "\n")), 0o644)
		if i == 0 {
			first = res.Hash
		}
		fmt.Printf("execution %d: hash %s outcome %s steps %d same=%v\n", i, res.Hash, res.Outcome, res.Steps, res.Hash == first)
		if os.Getenv("C19_DEBUG_GC") != "" {
			runtime.GC()
		}
	}
}

func c19DebugMaxSteps() int {
	if v, err := strconv.Atoi(os.Getenv("C19_DEBUG_MAXSTEPS")); err == nil && v > 0 {
		return v
	}
	return 100000
}
