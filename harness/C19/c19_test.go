//go:debug asynctimerchan=0
//go:build go1.21

package cluster

import (
	"testing"

	"github.com/megaease/easegress/pkg/cluster/zzsimetcd"
)

func TestVerifC19(t *testing.T) {
	t.Log(zzsimetcd.Hello(nil))
}
