//go:build go1.22

package api

// Development aid (not part of the check): C18_DEBUG_SEED=<seed> runs one seed
// several times with step tracing and writes the logs to /tmp/c18-trace-<i>.txt.
//
//	cd /repo/pkg/api && C18_DEBUG_SEED=4294967365 /verif/build/C18/test.bin -test.run TestC18DebugDeterminism -test.cpu 1 -test.v

import (
	"encoding/json"
	"fmt"
	"os"
	"runtime"
	"runtime/debug"
	"strconv"
	"strings"
	"testing"

	"github.com/megaease/easegress/pkg/logger"
	"github.com/megaease/easegress/pkg/supervisor"
	"verif/simkit/sim"
)

func TestC18DebugDeterminism(t *testing.T) {
	seedStr := os.Getenv("C18_DEBUG_SEED")
	if seedStr == "" {
		t.Skip("C18_DEBUG_SEED not set")
	}
	seed, _ := strconv.ParseUint(seedStr, 10, 64)
	logger.InitNop()
	func() {
		defer func() { recover() }()
		supervisor.Register(&c18Ctl{kind: c18KindA})
		supervisor.Register(&c18Ctl{kind: c18KindB})
	}()
	debug.SetGCPercent(-1)
	n := 3
	if v := os.Getenv("C18_DEBUG_N"); v != "" {
		n, _ = strconv.Atoi(v)
	}
	first := ""
	for i := 0; i < n; i++ {
		sc0 := c18Gen(sim.NewRand(sim.Mix(seed, 1)), "quick")
		b, _ := json.Marshal(sc0)
		if i == 0 {
			fmt.Println("scenario", string(b))
		}
		sc := &c18Scenario{}
		json.Unmarshal(b, sc)
		res := sim.Execute(t, sim.Options{Seed: sim.Mix(seed, 2), TraceSteps: true, KeepLog: 400000, MaxSteps: 150000}, func(r *sim.Run) { c18Exec(r, sc) })
		os.WriteFile(fmt.Sprintf("/tmp/c18-trace-%d.txt", i), []byte(strings.Join(res.Log, "\n")), 0o644)
		if i == 0 {
			first = res.Hash
		}
		fmt.Printf("execution %d: hash %s outcome %s steps %d same=%v\n", i, res.Hash, res.Outcome, res.Steps, res.Hash == first)
		runtime.GC()
	}
}
