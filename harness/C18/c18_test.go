//go:debug asynctimerchan=0
//go:build go1.22

package api

// C18 — Cluster mutex is exclusive; admin mutations serialise with gap-free versions.
//
// System under test (all real): pkg/cluster mutex.Lock/Unlock, cluster.Mutex,
// getSession, initLease/grantNewLease, Get/Put/Delete/GetPrefix on `cluster`
// values built around real etcd clientv3 clients (one per simulated member, each
// with its own gRPC connection, lease and concurrency.Session), the real
// concurrency.Mutex; pkg/api Server.Lock/Unlock, the chi router built by
// dynamicMux.reloadAPIs with all middlewares, the object handlers
// create/update/delete/get/list, _getVersion/_plusOneVersion, supervisor.NewSpec
// with two registered trivial kinds. Stub: the etcd server is simetcd
// (harness/simetcd) reached over simnet.
//
// A run is one of two workloads (scenario field "mode"):
//
//	mutex  2-3 members (sometimes 1) x 1-3 goroutines contend Lock/Unlock on ONE
//	       cluster mutex (one cluster.Mutex value per member, as every user of
//	       cluster.Mutex in easegress does) with drawn hold times; the request
//	       time-out is drawn below/around/above the RPC latency and the hold times,
//	       so acquisitions time out; faults: RPC latency, slow requests (applied
//	       after the client gave up), slow replies, refused RPCs
//	       (Unavailable/DeadlineExceeded), reply lost after apply, server stop/start.
//	api    per member a real api.Server (router + middlewares + handlers, driven
//	       in-process with httptest recorders); 2-4 client tasks issue create /
//	       update / delete / get / list on 2-3 overlapping names, incl.
//	       create-existing, update-with-other-kind, update/delete-missing, against
//	       one or several members; profiles "none"/"latency" (request time-out 30-60
//	       min, i.e. nothing can time out) and "errors" (the fault set above).
//
// Extension round "ordinary but unexplored inputs" (const switches c18Gen*):
//
//	mutex  values=2: every member asks cluster.Mutex twice for the one name (as the
//	       mesh controller's storage.New does 7 times per member) and its goroutines
//	       lock through either value. Found C18.two-holders-two-mutex-values-one-member
//	       (process-local lock was per value, etcd key per member), fixed in /repo c2b83a7.
//	api    unacceptable create/update requests (not YAML, unknown kind, no name, name
//	       outside the alphabet, empty body, PUT whose URL and body name differ):
//	       model op "bad-request" = any 4xx, nothing changes, X-Config-Version is a
//	       read of the counter; bodies as JSON / with document marker, comment, other
//	       key order and explicit version field / quoted scalars, CRLF and an unknown
//	       field; name pools whose names are prefixes of each other or contain
//	       - . _ ~ digits and upper case; stored version beyond 32 bits;
//	       DELETE /status/members/{ghost|nobody} (Server.Lock user that revokes a
//	       lease; model: 200 once for the departed member "ghost", else 404, no
//	       version change); '~' of a name sent as %7E in the URL (statement silent:
//	       normal rules or 4xx without change; on this tree always 4xx, probe
//	       percent_encoded_tilde_in_url_answered_4xx: chi routes on URL.RawPath and
//	       hands the undecoded segment to the handlers).
//
// Oracle (written from the property statement):
//
//	O1 (both modes; the mutexes are observed through a wrapper around
//	    cluster.Cluster.Mutex, so the api.Server's own mutex is covered too)
//	  a Lock returned nil while another Lock that returned nil has not yet called
//	  Unlock; the class names the constellation (see c18Env.enter):
//	  C18.two-holders-two-mutex-values-one-member  two goroutines of ONE member, each
//	                                    through its own cluster.Mutex value for the name
//	                                    (or: an Unlock through the other value removed
//	                                    the key under the holder)
//	  C18.two-holders-same-member       two goroutines of ONE member
//	  C18.two-holders-during-unlock     ... while an Unlock of that member still runs
//	  C18.two-holders-after-late-delete the lock key of one of the two was deleted
//	                                    during its tenure by a DeleteRange that an
//	                                    EARLIER call of the same member (timed-out
//	                                    Unlock / clean-up of a failed Lock) had sent
//	                                    and given up on   [FINDING on the unchanged tree]
//	  C18.two-holders-delete-issued-outside-unlock   the DeleteRange that removed the key
//	                                    under the holder was issued while no Lock/Unlock
//	                                    call was running on the issuing goroutine (e.g. a
//	                                    background retry after Unlock returned); every
//	                                    Delete of a lock key is attributed to the call
//	                                    running on its goroutine (c18KV) and tagged so that
//	                                    the server side knows which issue removed the key
//	  C18.two-holders-unlock-issued-several-deletes  ... was one of several DeleteRange
//	                                    requests of ONE Unlock call (retries inside Unlock)
//	                                    (both are NOT the known finding, which is a single
//	                                    DeleteRange issued inside the call and applied late)
//	  C18.two-holders-holder-key-gone   a holder's key is missing for another reason
//	  C18.two-holders                   anything else
//	  C18.lock-never-returns        a Lock/Unlock/request did not return within the bound
//	  C18.lock-held-after-return    every task returned but a Lock was never followed by Unlock
//	  C18.failed-lock-blocks-others after faults stopped and everybody finished, a
//	                                member that never took part cannot acquire because a
//	                                lock key left by a FAILED ACQUISITION of another
//	                                member is still in the store   [FINDING on the unchanged tree]
//	  C18.mutex-not-free            same, without such a key
//	O2 (api mode, runs in which no request was answered 5xx / aborted)
//	  C18.unexpected-status         a status the statement does not allow for the request
//	  C18.version-missing           successful mutation without X-Config-Version
//	  C18.version-not-distinct      two successful mutations returned the same version
//	  C18.version-gap               the versions of the k successes are not v0+1..v0+k
//	  C18.final-state-mismatch      final listing != fold of the successes in version order
//	  C18.final-version-mismatch    stored version != v0+k
//	  (the final state and version are read from the store; the admin listing is
//	  compared too when it answers, probe final_listing_unavailable_store_read_instead
//	  otherwise: the statement promises nothing about reads)
//	  C18.not-linearizable          the history (mutations with their versions, gets, lists)
//	                                has no linearisation against a map+counter model (porcupine)
//	  C18.version-reads-not-linearizable  the versions of the successes and the
//	                                X-Config-Version values of all other answers have no
//	                                linearisation against a plain counter
//	  C18.server-error-without-fault a 5xx answer / aborted request in a run without any
//	                                fault and with a request time-out (>= 30 min) that no
//	                                scheduling delay (<= 20 x 60 s) can reach
//	O2' (api mode, runs with 5xx answers / aborted requests)
//	  C18.version-not-distinct / C18.version-not-increasing (real-time order) over the
//	  successful mutations only;
//	  C18.version-rollback-by-late-write  the same two rules, when the store history shows
//	                                that the stored version went backwards: the version
//	                                write of a request that was answered 5xx (client gave
//	                                up) was applied after later mutations   [FINDING on the
//	                                unchanged tree]
//
// The three classes marked FINDING fire on the unchanged tree (they share one
// root: a request the etcd client gave up on is applied later, and neither the
// lock key nor the version write is fenced against that). C18_KNOWN=<classes>
// (development aid) turns listed classes into probes "suppressed:<class>".
//
// Observation (not in the statement, probe request_aborted_by_panic_outside_recoverer):
// the X-Config-Version attacher middleware runs OUTSIDE the recoverer middleware, so a
// cluster error in its _getVersion panics out of the router (net/http would close
// the connection without an answer instead of sending 503).
//
// Oracle leniency (statement silent / two readings), also in Assumptions:
//   * "successful" create/update/delete = any 2xx (the statement names only 409 and
//     400); a read (get/list) answered 5xx, or 200 with a body that cannot be parsed,
//     has an unknown outcome and is left out, like a 5xx mutation;
//   * lease expiry while holding is not generated; the leases are MaxLeaseTTL;
//   * "leave" = the moment Unlock is CALLED, "enter" = the moment Lock returned nil;
//   * a lock key left behind by a failed UNLOCK (statement speaks of failed
//     acquisitions only) is accepted: the harness removes it before the liveness probe;
//   * the liveness probe is judged only with a concrete blocker in the store (a
//     time-out alone may be caused by scheduler stalls) or after 25 attempts;
//   * 5xx answers / aborted requests: outcome unknown, they are left out of O2';
//   * a run that exhausts its step budget is not judged.

import (
	"context"
	"fmt"
	"math/rand"
	"net"
	"net/http/httptest"
	"os"
	"runtime"
	"sort"
	"strconv"
	"strings"
	"testing"
	"time"

	"github.com/anishathalye/porcupine"
	"github.com/go-chi/chi/v5"
	pb "go.etcd.io/etcd/api/v3/etcdserverpb"
	clientv3 "go.etcd.io/etcd/client/v3"
	"go.uber.org/zap"
	"google.golang.org/grpc"
	"google.golang.org/grpc/backoff"
	"google.golang.org/grpc/codes"
	"google.golang.org/grpc/metadata"
	"google.golang.org/grpc/status"
	yaml "gopkg.in/yaml.v2"

	"github.com/megaease/easegress/pkg/cluster"
	"github.com/megaease/easegress/pkg/cluster/customdata"
	"github.com/megaease/easegress/pkg/cluster/zzsimetcd"
	"github.com/megaease/easegress/pkg/logger"
	"github.com/megaease/easegress/pkg/option"
	"github.com/megaease/easegress/pkg/supervisor"
	"verif/simkit/hdrv"
	"verif/simkit/sim"
	"verif/simkit/simnet"
)

// ---- two trivial object kinds ---------------------------------------------------------

type c18KindSpec struct {
	Val string `yaml:"val" jsonschema:"omitempty"`
}

type c18Ctl struct{ kind string }

func (c *c18Ctl) Category() supervisor.ObjectCategory         { return supervisor.CategoryBusinessController }
func (c *c18Ctl) Kind() string                                { return c.kind }
func (c *c18Ctl) DefaultSpec() interface{}                    { return &c18KindSpec{} }
func (c *c18Ctl) Status() *supervisor.Status                  { return &supervisor.Status{} }
func (c *c18Ctl) Close()                                      {}
func (c *c18Ctl) Init(*supervisor.Spec)                       {}
func (c *c18Ctl) Inherit(*supervisor.Spec, supervisor.Object) {}

const (
	c18KindA = "C18KindA"
	c18KindB = "C18KindB"
)

// ---- scenario --------------------------------------------------------------------------

type c18Op struct {
	GapUs int64 `json:"gap_us"`
	// mutex mode
	HoldUs int64 `json:"hold_us,omitempty"`
	// api mode
	Req  string `json:"req,omitempty"` // create | update | delete | get | list
	Name string `json:"name,omitempty"`
	Kind string `json:"kind,omitempty"` // A | B
	Val  string `json:"val,omitempty"`
	// api mode, create/update: how the body is written (c18Body): 0 plain YAML,
	// 1 JSON, 2 YAML document marker + comment + other key order + explicit
	// version field, 3 quoted scalars + CRLF line ends + an unknown extra field
	Style int `json:"style,omitempty"`
	// api mode, req "bad-post" / "bad-put": the flavour of the unacceptable
	// request: yaml | kind | noname | badname | empty | mismatch (PUT only: the
	// name in the URL is Name, the name in the body is Other)
	Bad   string `json:"bad,omitempty"`
	Other string `json:"other,omitempty"`
	// api mode, update/delete/get: the client percent-encodes the '~' of the name
	// in the URL (%7E), as java.net.URLEncoder and older encoders do
	Enc bool `json:"enc,omitempty"`
	// mutex mode: which of the member's cluster.Mutex VALUES for the one lock
	// name the goroutine uses (only with scenario.values == 2)
	Obj int `json:"obj,omitempty"`
	// mutex mode, values == 2: before this Lock the goroutine asks cluster.Mutex
	// for the name AGAIN (a component re-created by a spec update does) and locks
	// through the new value, which also becomes the member's value 1 from then on
	Renew bool `json:"renew,omitempty"`
}

type c18Task struct {
	Member int     `json:"member"`
	Ops    []c18Op `json:"ops"`
}

type c18Fault struct {
	AtUs   int64  `json:"at_us"`
	Kind   string `json:"kind"`   // slow | slowreply | err | lost | stop
	Method string `json:"method"` // any | Txn | DeleteRange | Range | Put
	N      int    `json:"n"`
	DurUs  int64  `json:"dur_us"`
	Code   string `json:"code"` // unavailable | deadline
}

type c18Init struct {
	Name string `json:"name"`
	Kind string `json:"kind"`
	Val  string `json:"val"`
}

type c18Scenario struct {
	Seed         int64      `json:"seed"`
	Mode         string     `json:"mode"` // mutex | api
	Members      int        `json:"members"`
	ReqTimeoutMs int64      `json:"req_timeout_ms"`
	NetDelayUs   []int64    `json:"net_delay_us"`
	LatencyUs    int64      `json:"latency_us"`
	LatMul       []int64    `json:"lat_mul,omitempty"` // multipliers (cycled per RPC) of the RPC latency
	Tasks        []c18Task  `json:"tasks"`
	Faults       []c18Fault `json:"faults"`
	Init         []c18Init  `json:"init"`
	InitVersion  int64      `json:"init_version"`
	// api mode: the cluster.Mutex call made while the api servers of the worker
	// members are constructed fails (MustNewServer only logs that), so the
	// servers create their mutex lazily in the first lock-taking requests
	LazyMutex bool `json:"lazy_mutex,omitempty"`
	// api mode: the three object names of the run (default a, b, c)
	Names []string `json:"names,omitempty"`
	// api mode: the store knows a member "ghost" that has left for good (its lease
	// entry is still there), so DELETE /status/members/ghost succeeds once
	Ghost bool `json:"ghost,omitempty"`
	// mutex mode: number of cluster.Mutex values every member creates for the
	// one lock name (1, or 2 with c18GenSecondValue)
	Values int `json:"values,omitempty"`
	// mutex mode, values == 2: the second value of a member is not created at the
	// start but by the first goroutine that needs it (i.e. possibly after other
	// values of the name went through Lock/Unlock cycles)
	LazyValue bool `json:"lazy_value,omitempty"`
}

// ---- switches for the generator ranges added by the extension round ("ordinary
// but unexplored inputs"); all assertions behind them follow from the statement
const (
	c18GenBadRequests  = true // unacceptable create/update requests: 4xx, nothing changes
	c18GenBodyStyles   = true // JSON / reordered / quoted+CRLF bodies
	c18GenNamePools    = true // names sharing prefixes, with - . _ ~ digits, upper case
	c18GenPurge        = true // DELETE /status/members/{member}: another user of Server.Lock
	c18GenBigVersions  = true // stored config version beyond 32 bits
	c18GenEncodedTilde = true // '~' of a name sent as %7E in the URL (both outcomes accepted, probes)
	// mutex mode: two cluster.Mutex values for ONE name on one member (found
	// C18.two-holders-two-mutex-values-one-member, repaired in /repo c2b83a7)
	c18GenSecondValue = true
	// ... values of the name created in the middle of the run (lazily / again)
	c18GenLateValues = true
)

var c18DefaultNames = []string{"a", "b", "c"}

// c18Names is the name pool of the run in progress (set at the start of Exec;
// runs of one process are sequential).
var c18Names = c18DefaultNames

var c18NamePools = [][]string{
	{"a", "b", "c"},
	{"a", "ab", "abc"},             // every name is a prefix of the next
	{"svc", "svc-1", "svc.v2"},     // - and . and digits
	{"Pipe_1", "pipe_1", "pipe~1"}, // case differs only, _ and ~
	{"httpserver-demo", "httpserver-demo-2", "h"},
}

func c18ValidName(n string) bool {
	if len(n) == 0 || len(n) > 40 || n == "ghost" || n == "nobody" {
		return false
	}
	for _, ch := range n {
		switch {
		case ch >= 'a' && ch <= 'z', ch >= 'A' && ch <= 'Z', ch >= '0' && ch <= '9', ch == '-', ch == '_', ch == '.', ch == '~':
		default:
			return false
		}
	}
	return true
}

// c18Pool returns the three names of a scenario: sc.Names where usable (a shrunk
// or hand-written scenario may carry fewer / invalid / duplicate names), the
// defaults elsewhere.
func c18Pool(sc *c18Scenario) []string {
	pool := append([]string(nil), c18DefaultNames...)
	if len(sc.Names) != 3 {
		return pool
	}
	seen := map[string]bool{}
	for _, n := range sc.Names {
		if !c18ValidName(n) || seen[n] {
			return pool
		}
		seen[n] = true
	}
	return append([]string(nil), sc.Names...)
}

func c18GenFaults(rng *sim.Rand, sc *c18Scenario, spanUs int64, n int) {
	to := sc.ReqTimeoutMs * 1000
	for i := 0; i < n; i++ {
		f := c18Fault{AtUs: int64(rng.Intn(int(spanUs)+2000)) | 1}
		f.Method = rng.PickStr("any", "any", "Txn", "Txn", "DeleteRange", "DeleteRange", "Range", "Put")
		f.N = rng.Pick(1, 1, 2, 3)
		switch x := rng.Intn(100); {
		case x < 25:
			f.Kind = "slow"
			f.DurUs = to * int64(rng.Pick(3, 9, 15, 30)) / 10
		case x < 40:
			f.Kind = "slowreply"
			f.DurUs = to * int64(rng.Pick(3, 9, 15, 30)) / 10
		case x < 65:
			f.Kind = "err"
			f.Code = rng.PickStr("unavailable", "unavailable", "deadline")
		case x < 88:
			f.Kind = "lost"
			if f.Method == "Range" {
				f.Method = "any"
			}
		default:
			f.Kind = "stop"
			f.DurUs = int64(rng.Pick(1_003, 200_017, 1_300_021, 3_700_029))
		}
		if f.DurUs > 20_000_000 {
			f.DurUs = 20_000_000
		}
		sc.Faults = append(sc.Faults, f)
	}
	sort.SliceStable(sc.Faults, func(i, j int) bool { return sc.Faults[i].AtUs < sc.Faults[j].AtUs })
}

func c18Gen(rng *sim.Rand, tier string) interface{} {
	sc := &c18Scenario{}
	sc.Seed = int64(rng.Uint64() >> 1)
	switch rng.Intn(4) {
	case 1:
		sc.NetDelayUs = []int64{137}
	case 2:
		sc.NetDelayUs = []int64{53, 1103, 7019}
	}
	if rng.Bool(0.5) {
		// ---- W1: the cluster mutex
		sc.Mode = "mutex"
		sc.Members = rng.Pick(1, 2, 2, 2, 3, 3)
		sc.ReqTimeoutMs = int64(rng.Pick(50, 300, 300, 1700))
		sc.LatencyUs = int64(rng.Pick(0, 0, 211, 3109, 3109, 40_003, 80_011))
		if rng.Bool(0.4) {
			for i, n := 0, rng.Range(2, 7); i < n; i++ {
				sc.LatMul = append(sc.LatMul, int64(rng.Pick(1, 1, 1, 2, 3, 5, 9)))
			}
		}
		if c18GenSecondValue && rng.Bool(0.3) {
			sc.Values = 2
			sc.LazyValue = c18GenLateValues && rng.Bool(0.5)
		}
		holds := []int64{0, 1, 1000, 20_000, 20_000, 400_000}
		if rng.Bool(0.4) {
			// hold times around / above the time-out: waiters time out without any fault
			holds = append(holds, sc.ReqTimeoutMs*900, sc.ReqTimeoutMs*1100, sc.ReqTimeoutMs*2500)
		}
		var span int64
		for m := 0; m < sc.Members; m++ {
			ng := rng.Range(1, 3)
			for g := 0; g < ng; g++ {
				t := c18Task{Member: m}
				var tot int64
				for i, n := 0, rng.Range(1, 4); i < n; i++ {
					op := c18Op{GapUs: int64(rng.Pick(0, 0, 1, 1307, 52_101, 303_217)), HoldUs: holds[rng.Intn(len(holds))]}
					if sc.Values == 2 {
						op.Obj = rng.Intn(2)
						if c18GenLateValues && rng.Bool(0.15) {
							op.Obj, op.Renew = 1, true
						}
					}
					tot += op.GapUs + op.HoldUs
					t.Ops = append(t.Ops, op)
				}
				if tot > span {
					span = tot
				}
				sc.Tasks = append(sc.Tasks, t)
			}
		}
		if rng.Bool(0.6) {
			c18GenFaults(rng, sc, span, rng.Pick(1, 1, 2, 3, 4))
		}
		return sc
	}
	// ---- W2: the admin API
	sc.Mode = "api"
	sc.Members = rng.Pick(1, 2, 2, 3)
	profile := rng.Pick(0, 0, 1, 1, 2, 2, 2)
	switch profile {
	case 0:
		sc.ReqTimeoutMs = int64(rng.Pick(1_800_000, 3_600_000))
	case 1:
		sc.ReqTimeoutMs = int64(rng.Pick(1_800_000, 3_600_000))
		sc.LatencyUs = int64(rng.Pick(211, 3109, 40_003))
		if rng.Bool(0.7) {
			for i, n := 0, rng.Range(2, 7); i < n; i++ {
				sc.LatMul = append(sc.LatMul, int64(rng.Pick(1, 1, 1, 2, 3, 5, 9)))
			}
		}
	default:
		sc.ReqTimeoutMs = int64(rng.Pick(300, 1700))
		sc.LatencyUs = int64(rng.Pick(0, 211, 3109))
	}
	pool := c18DefaultNames
	if c18GenNamePools && rng.Bool(0.5) {
		pool = c18NamePools[rng.Intn(len(c18NamePools))]
		sc.Names = append([]string(nil), pool...)
	}
	nn := rng.Pick(2, 3, 3)
	for i := 0; i < nn; i++ {
		if rng.Bool(0.35) {
			sc.Init = append(sc.Init, c18Init{Name: pool[i], Kind: rng.PickStr("A", "A", "B"), Val: "v" + strconv.Itoa(rng.Range(1, 4))})
		}
	}
	sc.InitVersion = int64(rng.Pick(0, 0, 1, 7))
	if c18GenBigVersions && rng.Bool(0.12) {
		// a long-lived cluster: the counter is beyond 31 / 32 bits
		sc.InitVersion = []int64{2147483646, 2147483647, 4294967295, 999999999999}[rng.Intn(4)]
	}
	badOn := c18GenBadRequests && rng.Bool(0.6)
	stylesOn := c18GenBodyStyles && rng.Bool(0.5)
	purgeOn := c18GenPurge && rng.Bool(0.35)
	if purgeOn && rng.Bool(0.7) {
		sc.Ghost = true
	}
	nt := rng.Range(2, 4)
	budget := 20
	var span int64
	for t := 0; t < nt; t++ {
		task := c18Task{Member: rng.Intn(sc.Members)}
		var tot int64
		for i, n := 0, rng.Range(2, 7); i < n && budget > 0; i++ {
			budget--
			ni := rng.Intn(nn)
			op := c18Op{GapUs: int64(rng.Pick(0, 0, 0, 1, 1307, 52_101)), Name: pool[ni],
				Kind: rng.PickStr("A", "A", "B"), Val: "v" + strconv.Itoa(rng.Range(1, 4))}
			if stylesOn {
				op.Style = rng.Pick(0, 0, 1, 2, 3)
			}
			if c18GenEncodedTilde && strings.Contains(op.Name, "~") && rng.Bool(0.5) {
				op.Enc = true
			}
			extra := 100
			if badOn || purgeOn {
				extra = rng.Intn(100)
			}
			switch x := rng.Intn(100); {
			case badOn && extra < 10:
				if rng.Bool(0.5) {
					op.Req = "bad-post"
					op.Bad = rng.PickStr("yaml", "kind", "noname", "badname", "empty")
				} else {
					op.Req = "bad-put"
					op.Bad = rng.PickStr("yaml", "kind", "noname", "empty", "mismatch", "mismatch", "mismatch")
					op.Other = pool[(ni+1+rng.Intn(2))%3]
				}
			case purgeOn && extra >= 10 && extra < 17:
				op.Req = "purge"
				op.Name = "nobody"
				if sc.Ghost && rng.Bool(0.75) {
					op.Name = "ghost"
				}
			case x < 32:
				op.Req = "create"
			case x < 57:
				op.Req = "update"
			case x < 77:
				op.Req = "delete"
			case x < 90:
				op.Req = "get"
			default:
				op.Req = "list"
			}
			tot += op.GapUs
			task.Ops = append(task.Ops, op)
		}
		if tot > span {
			span = tot
		}
		sc.Tasks = append(sc.Tasks, task)
	}
	if profile == 2 {
		c18GenFaults(rng, sc, span+200_000, rng.Pick(1, 2, 3, 4))
	}
	if rng.Bool(0.3) {
		// start-up variant: lazily created server mutex, first requests overlap
		sc.LazyMutex = true
		same := rng.Bool(0.6)
		for ti := range sc.Tasks {
			t := &sc.Tasks[ti]
			if same {
				t.Member = 0
			}
			if len(t.Ops) > 0 {
				t.Ops[0].GapUs = 0
				if r := t.Ops[0].Req; r != "create" && r != "update" && r != "delete" && r != "purge" {
					t.Ops[0] = c18Op{Req: "create", Name: t.Ops[0].Name, Kind: t.Ops[0].Kind, Val: t.Ops[0].Val, Style: t.Ops[0].Style}
				}
			}
		}
	}
	return sc
}

// ---- simulated environment --------------------------------------------------------------

const (
	c18Addr     = "etcd:2379"
	c18LockName = "/c18/lock" // mutex mode; the api servers use lockKey
)

type c18ActiveFault struct {
	kind, method string
	left         int
	dur          time.Duration
	code         codes.Code
}

type c18Member struct {
	idx      int
	name     string
	cli      *clientv3.Client
	mem      *cluster.VerifC18Member
	cls      cluster.Cluster
	leaseHex string
	obs      *c18ObsMutex
	obs2     *c18ObsMutex // mutex mode with scenario.values == 2: a second cluster.Mutex value for the same name
	srv      *Server

	lastOp       string // lock-ok | lock-fail | unlock-ok | unlock-fail
	lastOpRev    int64  // store revision when the member's last Lock/Unlock call returned
	tenureRev    int64  // lastOpRev as it was when the current tenure's Lock call returned
	unlockVal    int    // value through which the member's latest Unlock was called
	unlockTick   int    // e.tick when that Unlock returned
	unlocking    int    // Unlock calls in progress
	failedLock   int
	failedUnlock int
}

type c18Holder struct {
	id   string
	m    *c18Member
	val  int // which cluster.Mutex value of the member
	at   time.Duration
	tick int // e.tick at entry
}

type c18Env struct {
	r     *sim.Run
	sc    *c18Scenario
	net   *simnet.Net
	store *zzsimetcd.Store
	srv   *zzsimetcd.Server
	gs    *grpc.Server
	hooks zzsimetcd.Hooks
	up    bool

	t0      time.Time
	armed   bool // latency and faults apply
	active  []*c18ActiveFault
	nonce   int
	rpcs    int
	maxDown time.Duration
	maxSlow time.Duration

	prefix  string // lock key prefix in the store ("<name>/")
	members []*c18Member
	holders []c18Holder
	mxLog   []string
	lockSeq int
	// attribution of lock-key deletes (see c18KV)
	calls     map[int64]*c18Call // goroutine id -> Lock/Unlock call running on it
	callSeq   int
	delSeq    int
	delIssues map[int]*c18DelIssue
	delByRev  map[int64]*c18DelIssue // store revision in which the issue removed its key
	tick      int                    // counts entries and Unlock returns

	acquired   int
	contended  int
	lockFails  int
	acqOrder   []string
	injected   int
	twoHolders bool
}

func (e *c18Env) sleep(d time.Duration) {
	e.nonce++
	time.Sleep(d + 400*time.Nanosecond + time.Duration(e.nonce%599)*time.Nanosecond)
}

// tsleep is r.Sleep for harness tasks with a few extra nanoseconds that differ
// from call to call: no task sleep ends in the same instant as another one or as
// a scheduler stall (1 us ... 60 s) that began in the same instant.
func (e *c18Env) tsleep(d time.Duration) {
	e.nonce++
	e.r.Sleep(d + time.Duration(37+e.nonce%199)*time.Nanosecond)
}

func (e *c18Env) start() {
	lis, err := e.net.Listen("tcp", c18Addr)
	if err != nil {
		panic(err)
	}
	e.srv = zzsimetcd.NewServer(e.store)
	e.srv.Hooks = e.hooks
	e.gs = grpc.NewServer()
	e.srv.Register(e.gs)
	gs := e.gs
	go gs.Serve(lis)
	e.up = true
}

func (e *c18Env) stop() {
	if !e.up {
		return
	}
	e.up = false
	e.gs.Stop()
	e.srv.Close()
}

func (e *c18Env) match(kind, method string) *c18ActiveFault {
	for _, f := range e.active {
		if f.left > 0 && f.kind == kind && (f.method == "any" || f.method == method) {
			f.left--
			return f
		}
	}
	return nil
}

func (e *c18Env) unaryHook(ctx context.Context, ph zzsimetcd.Phase, method string, req interface{}) error {
	r := e.r
	if ph == zzsimetcd.Before {
		// first gate of the handler goroutine, before any sleep (goroutine names =
		// scheduler order are assigned at the first gate)
		r.Yield("etcd.rpc")
		if r.Aborted() {
			time.Sleep(10 * time.Millisecond)
			return nil
		}
		if !e.armed || method == "LeaseKeepAlive" {
			return nil
		}
		r.Eventf("rpc %s arrives", method)
		slept := false
		if e.sc.LatencyUs > 0 {
			lat := time.Duration(e.sc.LatencyUs) * time.Microsecond
			if n := len(e.sc.LatMul); n > 0 {
				if mul := e.sc.LatMul[e.rpcs%n]; mul > 1 && mul <= 20 {
					lat *= time.Duration(mul)
				}
			}
			e.rpcs++
			e.sleep(lat)
			slept = true
		}
		if f := e.match("slow", method); f != nil {
			r.Fault("etcd.slow_request." + method)
			e.injected++
			e.sleep(f.dur)
			slept = true
		}
		if slept {
			r.Yield("etcd.wake")
		}
		if f := e.match("err", method); f != nil {
			r.Fault("etcd.refused." + f.code.String() + "." + method)
			e.injected++
			return status.Error(f.code, "simetcd: injected failure")
		}
		return nil
	}
	if method == "DeleteRange" {
		e.noteApplied(ctx)
	}
	if !e.armed || method == "LeaseKeepAlive" || r.Aborted() {
		return nil
	}
	if f := e.match("slowreply", method); f != nil {
		r.Fault("etcd.slow_reply." + method)
		e.injected++
		e.sleep(f.dur)
		r.Yield("etcd.wake")
	}
	if method != "Range" {
		if f := e.match("lost", method); f != nil {
			r.Fault("etcd.reply_lost_after_apply." + method)
			e.injected++
			return status.Error(codes.Unavailable, "simetcd: reply lost")
		}
	}
	return nil
}

func (e *c18Env) newClient(idx int) (*clientv3.Client, error) {
	n := e.net
	// every client has its own reconnect back-off: after a server stop all of
	// them start backing off in the same instant, and timers that expire in the
	// same instant fire in an order the runtime does not reproduce
	skew := time.Duration(idx*7_301+1_013) * time.Microsecond
	return clientv3.New(clientv3.Config{
		Endpoints: []string{c18Addr},
		Logger:    zap.NewNop(),
		DialOptions: []grpc.DialOption{grpc.WithContextDialer(func(ctx context.Context, addr string) (net.Conn, error) {
			return n.Dial(ctx, "tcp", addr)
		}),
			// gRPC's default reconnect back-off without its jitter (seeded from the wall clock)
			grpc.WithConnectParams(grpc.ConnectParams{Backoff: backoff.Config{BaseDelay: time.Second + skew, Multiplier: 1.6, Jitter: 0, MaxDelay: 120*time.Second + skew}, MinConnectTimeout: 20*time.Second + skew})},
	})
}

// c18Lease replaces the client's lessor for KeepAlive only: the session's
// keep-alive channel is fed once and then stays open until the client closes.
// The real lessor would run a 500 ms send loop and a 1 s deadline loop per client;
// they have no bearing on the property (leases are MaxLeaseTTL, expiry is not
// generated), cost steps, and their timers tie with the scheduler's stall
// sleeps, which made runs irreproducible.
type c18Lease struct {
	clientv3.Lease
}

func (l c18Lease) KeepAlive(ctx context.Context, id clientv3.LeaseID) (<-chan *clientv3.LeaseKeepAliveResponse, error) {
	ch := make(chan *clientv3.LeaseKeepAliveResponse, 1)
	ch <- &clientv3.LeaseKeepAliveResponse{ID: id, TTL: zzsimetcd.MaxLeaseTTL}
	go func() {
		<-ctx.Done()
		close(ch)
	}()
	return ch, nil
}

// newMember builds member idx: own client, real cluster value, real initLease.
func (e *c18Env) newMember(idx int, name string) (*c18Member, error) {
	cli, err := e.newClient(idx)
	if err != nil {
		return nil, err
	}
	cli.Lease = c18Lease{cli.Lease}
	m := &c18Member{idx: idx, name: name, cli: cli}
	cli.KV = c18KV{KV: cli.KV, e: e, m: m}
	m.mem = cluster.VerifC18NewMember(name, cli, time.Hour)
	if err := m.mem.InitLease(); err != nil {
		return m, fmt.Errorf("initLease: %v", err)
	}
	m.mem.SetRequestTimeout(time.Duration(e.sc.ReqTimeoutMs) * time.Millisecond)
	m.cls = m.mem.Cluster()
	m.leaseHex = fmt.Sprintf("%x", m.mem.Lease())
	return m, nil
}

// ---- who issued the DeleteRange that removed a lock key ------------------------------------
//
// The known finding C18.two-holders-after-late-delete is about ONE DeleteRange
// that a Lock/Unlock call of the member issued, gave up on, and that etcd applies
// after the call returned. To keep other causes apart, every Delete of a lock key
// that goes through a member's client is attributed to the Lock/Unlock call (of
// the harness-observed mutex) that is running ON THE ISSUING GOROUTINE, if any,
// and tagged (gRPC metadata) so that the server side can tell which issue removed
// the key in which store revision.

type c18Call struct {
	serial int
	m      *c18Member
	unlock bool
	dels   int // Deletes of a lock key issued during the call, on its goroutine
}

type c18DelIssue struct {
	id   int
	m    *c18Member
	key  string
	call *c18Call // nil: issued outside every Lock/Unlock call
	at   time.Duration
}

type c18KV struct {
	clientv3.KV
	e *c18Env
	m *c18Member
}

const c18DelTag = "c18-del-issue"

func (k c18KV) Delete(ctx context.Context, key string, opts ...clientv3.OpOption) (*clientv3.DeleteResponse, error) {
	e := k.e
	if e.prefix != "" && strings.HasPrefix(key, e.prefix) {
		e.delSeq++
		is := &c18DelIssue{id: e.delSeq, m: k.m, key: key, call: e.calls[c18Goid()], at: e.r.Now()}
		if is.call != nil {
			is.call.dels++
		}
		if e.delIssues == nil {
			e.delIssues = map[int]*c18DelIssue{}
		}
		e.delIssues[is.id] = is
		ctx = metadata.AppendToOutgoingContext(ctx, c18DelTag, strconv.Itoa(is.id))
	}
	return k.KV.Delete(ctx, key, opts...)
}

// c18Goid: the id of the running goroutine (only used to tie a Delete to the
// Lock/Unlock call that is running on the same goroutine).
func c18Goid() int64 {
	var buf [64]byte
	n := runtime.Stack(buf[:], false)
	f := strings.Fields(string(buf[:n]))
	if len(f) < 2 {
		return -1
	}
	id, err := strconv.ParseInt(f[1], 10, 64)
	if err != nil {
		return -1
	}
	return id
}

func (e *c18Env) beginCall(m *c18Member, unlock bool) (int64, *c18Call) {
	e.callSeq++
	c := &c18Call{serial: e.callSeq, m: m, unlock: unlock}
	if e.calls == nil {
		e.calls = map[int64]*c18Call{}
	}
	g := c18Goid()
	e.calls[g] = c
	return g, c
}

func (e *c18Env) endCall(g int64) { delete(e.calls, g) }

// noteApplied (server side, After phase of a DeleteRange): the tagged issue has
// been applied; when it removed the key, remember in which revision.
func (e *c18Env) noteApplied(ctx context.Context) {
	md, ok := metadata.FromIncomingContext(ctx)
	if !ok {
		return
	}
	for _, v := range md.Get(c18DelTag) {
		id, err := strconv.Atoi(v)
		if err != nil {
			continue
		}
		is := e.delIssues[id]
		if is == nil {
			continue
		}
		rev := e.store.Rev()
		hist := e.store.History()
		for i := len(hist) - 1; i >= 0 && hist[i].Rev >= rev; i-- {
			if hist[i].Rev != rev || !hist[i].At.Equal(time.Now()) {
				// not written by this request (which is applied and reported in one
				// instant of virtual time): the request removed nothing
				continue
			}
			for _, ev := range hist[i].Events {
				if ev.Type != 0 && string(ev.Kv.Key) == is.key {
					if e.delByRev == nil {
						e.delByRev = map[int64]*c18DelIssue{}
					}
					if e.delByRev[rev] == nil {
						e.delByRev[rev] = is
					}
				}
			}
		}
	}
}

// delOrigin classifies the delete that removed m's lock key during its present
// tenure: "" none / unknown issuer, "inside" issued by a Lock/Unlock call of a
// member's goroutine that issued nothing else, "several" the Unlock call issued
// more than one Delete, "outside" issued outside every Lock/Unlock call.
func (e *c18Env) delOrigin(m *c18Member) (string, string) {
	_, rev := e.lateDeleteRev(m)
	if rev == 0 {
		return "", ""
	}
	is := e.delByRev[rev]
	if is == nil {
		return "", ""
	}
	switch {
	case is.call == nil:
		return "outside", fmt.Sprintf("the DeleteRange applied in store revision %d was issued by %s at %v outside every Lock/Unlock call (no such call was running on the issuing goroutine)\n", rev, is.m.name, is.at)
	case is.call.unlock && is.call.dels > 1:
		return "several", fmt.Sprintf("the DeleteRange applied in store revision %d was issued by %s at %v by an Unlock call that issued %d DeleteRange requests\n", rev, is.m.name, is.at, is.call.dels)
	}
	return "inside", ""
}

// c18Known (development aid, env C18_KNOWN=class,class): the listed violation
// classes are counted as probes "suppressed:<class>" instead of being reported,
// so that mutation experiments can look past a finding of the unchanged tree.
var c18Known = func() map[string]bool {
	m := map[string]bool{}
	for _, c := range strings.Split(os.Getenv("C18_KNOWN"), ",") {
		if c = strings.TrimSpace(c); c != "" {
			m[c] = true
		}
	}
	return m
}()

func c18Violate(r *sim.Run, class, format string, a ...interface{}) bool {
	if c18Known[class] {
		r.Probe("suppressed:" + class)
		return false
	}
	r.Violate(class, format, a...)
	return true
}

// ---- observed mutex (O1) -------------------------------------------------------------------

// c18Cluster is the member's real cluster whose Mutex() results are wrapped for
// observation (the api.Server gets it as its cluster.Cluster).
type c18Cluster struct {
	cluster.Cluster
	e        *c18Env
	m        *c18Member
	failLeft int // Mutex() calls that fail (start-up variant)
	created  int
}

func (c *c18Cluster) Mutex(name string) (cluster.Mutex, error) {
	if c.failLeft > 0 {
		c.failLeft--
		c.e.r.Probe("cluster_mutex_failed_at_server_start")
		return nil, fmt.Errorf("c18: cluster not ready (injected)")
	}
	// creating the session is a round trip to the cluster in production (the
	// harness stubs the lease keep-alive): a scheduling point
	c.e.r.Yield("cluster.Mutex")
	mx, err := c.Cluster.Mutex(name)
	c.created++
	if c.created > 1 && c.e.sc.Mode == "api" {
		c.e.r.Probe("member_created_several_mutex_objects")
	}
	if err != nil {
		return nil, err
	}
	return &c18ObsMutex{e: c.e, m: c.m, inner: mx, val: c.created}, nil
}

// c18ObsMutex wraps the member's real cluster.Mutex: enter = Lock returned nil,
// leave = Unlock is called.
type c18ObsMutex struct {
	e     *c18Env
	m     *c18Member
	inner cluster.Mutex
	val   int // ordinal of the value among those the member created
}

func (o *c18ObsMutex) Lock() error {
	o.e.lockSeq++
	return o.LockAs(fmt.Sprintf("%s/call%d", o.m.name, o.e.lockSeq))
}

func (o *c18ObsMutex) Unlock() error {
	// the api.Server does not say who unlocks: it is the holder of this member
	id := ""
	for _, h := range o.e.holders {
		if h.m == o.m {
			id = h.id
		}
	}
	return o.UnlockAs(id)
}

func (o *c18ObsMutex) LockAs(id string) error {
	e := o.e
	waited := len(e.holders) > 0
	g, _ := e.beginCall(o.m, false)
	err := o.inner.Lock()
	e.endCall(g)
	// no gate between the return of Lock and the bookkeeping
	prevRev := o.m.lastOpRev
	o.m.lastOpRev = e.store.Rev()
	if err == nil {
		o.m.lastOp = "lock-ok"
		o.m.tenureRev = prevRev
		e.acquired++
		if waited {
			e.contended++
		}
		e.acqOrder = append(e.acqOrder, o.m.name)
		e.enter(id, o.m, o.val)
	} else {
		o.m.lastOp = "lock-fail"
		o.m.failedLock++
		e.lockFails++
		e.note("%v %s Lock failed: %v", e.r.Now(), id, c18Short(err))
	}
	return err
}

func (o *c18ObsMutex) UnlockAs(id string) error {
	e := o.e
	e.leave(id)
	o.m.unlocking++
	o.m.unlockVal = o.val
	g, _ := e.beginCall(o.m, true)
	err := o.inner.Unlock()
	e.endCall(g)
	o.m.unlocking--
	e.tick++
	o.m.unlockTick = e.tick
	o.m.lastOpRev = e.store.Rev()
	if err == nil {
		o.m.lastOp = "unlock-ok"
	} else {
		o.m.lastOp = "unlock-fail"
		o.m.failedUnlock++
		e.note("%v %s Unlock failed: %v", e.r.Now(), id, c18Short(err))
	}
	return err
}

func c18Short(err error) string {
	s := err.Error()
	if len(s) > 90 {
		s = s[:90] + "..."
	}
	return s
}

func (e *c18Env) note(format string, a ...interface{}) {
	e.mxLog = append(e.mxLog, fmt.Sprintf(format, a...))
}

func (e *c18Env) lockKeys() []string {
	resp, err := e.store.Range(&pb.RangeRequest{Key: []byte(e.prefix), RangeEnd: zzsimetcd.PrefixEnd(e.prefix)})
	if err != nil {
		return nil
	}
	var ks []string
	for _, kv := range resp.Kvs {
		ks = append(ks, fmt.Sprintf("%s(created@%d)", kv.Key, kv.CreateRevision))
	}
	return ks
}

func (e *c18Env) hasKey(m *c18Member) bool {
	resp, err := e.store.Range(&pb.RangeRequest{Key: []byte(e.prefix + m.leaseHex)})
	return err == nil && len(resp.Kvs) > 0
}

func (e *c18Env) describe() string {
	var b strings.Builder
	fmt.Fprintf(&b, "lock keys in the store: %v\nmembers:", e.lockKeys())
	for _, m := range e.members {
		fmt.Fprintf(&b, " %s(lease %s, last op %s, failed locks %d, failed unlocks %d)", m.name, m.leaseHex, m.lastOp, m.failedLock, m.failedUnlock)
	}
	b.WriteString("\nmutex history (last 16):")
	lg := e.mxLog
	if len(lg) > 16 {
		lg = lg[len(lg)-16:]
	}
	for _, l := range lg {
		b.WriteString("\n  " + l)
	}
	return b.String()
}

// lateDelete reports a deletion of m's lock key that was applied after m's
// previous Lock/Unlock call had returned (m has not called Unlock since).
func (e *c18Env) lateDelete(m *c18Member) string {
	s, _ := e.lateDeleteRev(m)
	return s
}

func (e *c18Env) lateDeleteRev(m *c18Member) (string, int64) {
	key := e.prefix + m.leaseHex
	for _, rec := range e.store.History() {
		if rec.Rev <= m.tenureRev {
			continue
		}
		for _, ev := range rec.Events {
			if ev.Type != 0 && string(ev.Kv.Key) == key {
				return fmt.Sprintf("the lock key %s of %s was deleted in store revision %d at %v, after the previous Lock/Unlock call of %s had returned (store revision %d)\n", key, m.name, rec.Rev, rec.At.Sub(e.t0), m.name, m.tenureRev), rec.Rev
			}
		}
	}
	return "", 0
}

func (e *c18Env) enter(id string, m *c18Member, val int) {
	r := e.r
	e.note("%v %s ENTER (mutex value %d of %s)", r.Now(), id, val, m.name)
	if len(e.holders) > 0 && !e.twoHolders {
		e.twoHolders = true
		h := e.holders[0]
		class, extra := "C18.two-holders", ""
		originH, whyH := e.delOrigin(h.m)
		originM, whyM := e.delOrigin(m)
		late := (e.lateDelete(h.m) != "" && h.m.failedLock+h.m.failedUnlock > 0) || (e.lateDelete(m) != "" && m.failedLock+m.failedUnlock > 0)
		switch {
		case h.m == m && h.val != val:
			// two goroutines of one member, each through its own cluster.Mutex value
			// for the same name: the process-local lock is per VALUE, the etcd key
			// per member (session), so the second Lock finds "its" key and returns
			// (or, as a consequence, the Unlock through one value deleted the key
			// under the holder that came in through the other one)
			class = "C18.two-holders-two-mutex-values-one-member"
		case !late && h.m.unlockVal != 0 && h.m.unlockVal != h.val && (h.m.unlockTick > h.tick || h.m.unlocking > 0):
			// consequence of the same: an Unlock through the member's OTHER value,
			// running or finished after the holder came in, deleted the member's
			// key under it
			class = "C18.two-holders-two-mutex-values-one-member"
		case h.m == m:
			// the process-local lock did not serialise two goroutines of one member
			class = "C18.two-holders-same-member"
		case h.m.unlocking > 0 || m.unlocking > 0:
			// a goroutine got in while an Unlock of its own member is still running
			class = "C18.two-holders-during-unlock"
		case originH == "outside" || originM == "outside":
			// NOT the known finding: the delete that removed the key under the holder
			// was issued when no Lock/Unlock call of that member was running on the
			// issuing goroutine (e.g. by a background retry after Unlock had returned)
			class = "C18.two-holders-delete-issued-outside-unlock"
			extra = e.lateDelete(h.m) + e.lateDelete(m) + whyH + whyM
		case originH == "several" || originM == "several":
			// NOT the known finding either: one Unlock call issued several deletes,
			// an earlier one of them was applied after the call had returned
			class = "C18.two-holders-unlock-issued-several-deletes"
			extra = e.lateDelete(h.m) + e.lateDelete(m) + whyH + whyM
		case late:
			// the lock key of one of the two was deleted during its present tenure,
			// i.e. after the member's previous Lock/Unlock call had returned: by a
			// DeleteRange which an EARLIER call of that member (a timed-out Unlock, or
			// the clean-up of a failed Lock) had sent and given up on, applied late.
			// The key name is per member, not per tenure.
			class = "C18.two-holders-after-late-delete"
			extra = e.lateDelete(h.m) + e.lateDelete(m)
		case !e.hasKey(h.m) || !e.hasKey(m):
			class = "C18.two-holders-holder-key-gone"
		}
		c18Violate(r, class, "%s acquired the mutex at %v while %s (holding since %v) has not called Unlock\n%s%s", id, r.Now(), h.id, h.at, extra, e.describe())
	}
	e.tick++
	e.holders = append(e.holders, c18Holder{id: id, m: m, val: val, at: r.Now(), tick: e.tick})
}

func (e *c18Env) leave(id string) {
	e.note("%v %s LEAVE", e.r.Now(), id)
	for i, h := range e.holders {
		if h.id == id {
			e.holders = append(e.holders[:i], e.holders[i+1:]...)
			return
		}
	}
}

// ---- api server construction and client ----------------------------------------------------

// c18NewServer builds an api.Server as MustNewServer does, without
// ListenAndServe and without the dynamicMux.run goroutine: the package-level
// API table is global, so with several servers in one process every server
// registers its own handlers and reloads its own router right away.
func c18NewServer(cls cluster.Cluster, super *supervisor.Supervisor) (*Server, error) {
	s := &Server{opt: &option.Options{}, cluster: cls, super: super}
	m := &dynamicMux{server: s, done: make(chan struct{})}
	m.router.Store(chi.NewRouter())
	s.router = m
	if _, err := s.getMutex(); err != nil {
		logger.Errorf("get cluster mutex %s failed: %v", lockKey, err) // as MustNewServer: only logged
	}
	s.cds = customdata.NewStore(cls, cls.Layout().CustomDataKindPrefix(), cls.Layout().CustomDataPrefix())
	apis = make(map[string]*Group)
	s.registerAPIs()
	select {
	case <-apisChangeChan:
	default:
	}
	m.reloadAPIs()
	return s, nil
}

type c18Obj struct {
	present bool
	kind    uint8 // 1 = A, 2 = B
	val     uint8
}

func (o c18Obj) String() string {
	if !o.present {
		return "-"
	}
	return fmt.Sprintf("%c:v%d", 'A'+o.kind-1, o.val)
}

type c18State struct {
	ver   int64
	o     [3]c18Obj
	ghost bool // the lease entry of the departed member "ghost" exists
}

func (s c18State) String() string {
	g := ""
	if s.ghost {
		g = " +ghost member"
	}
	return fmt.Sprintf("{ver %d %s=%v %s=%v %s=%v%s}", s.ver, c18Names[0], s.o[0], c18Names[1], s.o[1], c18Names[2], s.o[2], g)
}

// c18Success: the statement speaks of "successful" create/update/delete and
// names no success code: every 2xx is a success.
func c18Success(status int) bool { return status >= 200 && status < 300 }

func c18NameIdx(n string) int {
	for i, x := range c18Names {
		if x == n {
			return i
		}
	}
	return -1
}

func c18KindNo(k string) uint8 {
	switch k {
	case "A", c18KindA:
		return 1
	case "B", c18KindB:
		return 2
	}
	return 0
}

func c18ValNo(v string) uint8 {
	if len(v) >= 2 && v[0] == 'v' {
		if n, err := strconv.Atoi(v[1:]); err == nil && n >= 0 && n < 250 {
			return uint8(n)
		}
	}
	return 255
}

func c18YAML(name, kind, val string) string { return c18Body(name, kind, val, 0) }

// c18Body writes the object the way one of several ordinary clients would.
func c18Body(name, kind, val string, style int) string {
	k := c18KindA
	if c18KindNo(kind) == 2 {
		k = c18KindB
	}
	switch style {
	case 1: // JSON (egctl accepts JSON files and sends them as they are)
		return fmt.Sprintf("{\"name\": %q, \"kind\": %q, \"val\": %q}", name, k, val)
	case 2: // document marker, comment, other key order, explicit version field
		return fmt.Sprintf("---\n# edited by hand\nkind: %s\nval: %s\nversion: easegress.megaease.com/v2\nname: %s\n", k, val, name)
	case 3: // quoted scalars, CRLF line ends, a field the kind does not know
		return fmt.Sprintf("name: %q\r\nkind: '%s'\r\nval: %q\r\nnote: not part of the kind\r\n", name, k, val)
	}
	return fmt.Sprintf("name: %s\nkind: %s\nval: %s\n", name, k, val)
}

// c18BadBody: the body of an unacceptable request of the given flavour.
func c18BadBody(flavour, name, other, kind, val string) (string, bool) {
	k := c18KindA
	if c18KindNo(kind) == 2 {
		k = c18KindB
	}
	switch flavour {
	case "yaml": // not YAML at all
		return fmt.Sprintf("name: %s\nkind: [%s\nval: %s\n", name, k, val), true
	case "kind": // a kind nobody registered
		return fmt.Sprintf("name: %s\nkind: C18NoSuchKind\nval: %s\n", name, val), true
	case "noname":
		return fmt.Sprintf("kind: %s\nval: %s\n", k, val), true
	case "badname": // characters outside the allowed name alphabet
		return fmt.Sprintf("name: \"%s /x\"\nkind: %s\nval: %s\n", name, k, val), true
	case "empty":
		return "", true
	case "mismatch": // URL says name, body says other
		if c18NameIdx(other) < 0 || other == name {
			return "", false
		}
		return fmt.Sprintf("name: %s\nkind: %s\nval: %s\n", other, k, val), true
	}
	return "", false
}

func c18ObjFromMap(m map[string]interface{}) (string, c18Obj) {
	name, _ := m["name"].(string)
	kind, _ := m["kind"].(string)
	val, _ := m["val"].(string)
	return name, c18Obj{present: true, kind: c18KindNo(kind), val: c18ValNo(val)}
}

type c18Resp struct {
	status  int
	ver     int64 // X-Config-Version, -1 = absent / unparsable
	body    string
	aborted bool // the handler chain panicked outside the recoverer: no response
	panicV  string
}

func c18Do(m *c18Member, method, path, body string) (resp c18Resp) {
	req := httptest.NewRequest(method, path, strings.NewReader(body))
	rec := httptest.NewRecorder()
	func() {
		defer func() {
			if p := recover(); p != nil {
				resp.aborted = true
				resp.panicV = fmt.Sprint(p)
			}
		}()
		m.srv.router.ServeHTTP(rec, req)
	}()
	resp.status = rec.Code
	resp.ver = -1
	if v := rec.Header().Get(ConfigVersionKey); v != "" {
		if n, err := strconv.ParseInt(v, 10, 64); err == nil {
			resp.ver = n
		}
	}
	resp.body = rec.Body.String()
	if resp.aborted {
		resp.status = 0
	}
	return resp
}

// ---- porcupine model ------------------------------------------------------------------------

const (
	c18OpCreate = iota
	c18OpUpdate
	c18OpDelete
	c18OpGet
	c18OpList
	c18OpReadVer
	c18OpBad   // unacceptable create/update request
	c18OpPurge // DELETE /status/members/{ghost|nobody}; in.name 0 = ghost, 1 = nobody
)

type c18In struct {
	op   int
	name int
	obj  c18Obj
	note string // c18OpBad: what was sent (for messages only)
	enc  bool   // the name was sent percent-encoded in the URL
}

type c18Out struct {
	status int
	ver    int64
	obj    c18Obj
	list   [3]c18Obj
}

var c18OpNames = []string{"create", "update", "delete", "get", "list", "read-version", "bad-request", "purge-member"}

func c18Describe(in c18In, out c18Out) string {
	switch in.op {
	case c18OpCreate, c18OpUpdate:
		return fmt.Sprintf("%s %s=%v -> %d ver %d", c18OpNames[in.op], c18Names[in.name], in.obj, out.status, out.ver)
	case c18OpDelete:
		return fmt.Sprintf("delete %s -> %d ver %d", c18Names[in.name], out.status, out.ver)
	case c18OpGet:
		return fmt.Sprintf("get %s -> %d %v", c18Names[in.name], out.status, out.obj)
	case c18OpList:
		return fmt.Sprintf("list -> %d %s=%v %s=%v %s=%v", out.status, c18Names[0], out.list[0], c18Names[1], out.list[1], c18Names[2], out.list[2])
	case c18OpBad:
		return fmt.Sprintf("unacceptable %s -> %d ver %d", in.note, out.status, out.ver)
	case c18OpPurge:
		return fmt.Sprintf("purge member %s -> %d ver %d", []string{"ghost", "nobody"}[in.name&1], out.status, out.ver)
	}
	return fmt.Sprintf("read-version -> %d", out.ver)
}

// c18Step is the sequential specification, written from the property statement:
// a map name -> object plus a counter; create of an existing name 409, update /
// delete of a missing name 404, update with another kind 400 — all three
// without any change; every successful mutation increments the counter by one
// and returns the new value.
func c18Step(st c18State, in c18In, out c18Out) (bool, c18State) {
	if in.enc {
		// statement silent: the encoded name is either understood (normal rules)
		// or the request is refused as a client error without changing anything
		in.enc = false
		if ok, st2 := c18Step(st, in, out); ok {
			return true, st2
		}
		return out.status >= 400 && out.status < 500, st
	}
	switch in.op {
	case c18OpCreate:
		if st.o[in.name].present {
			return out.status == 409, st
		}
		if !c18Success(out.status) || out.ver != st.ver+1 {
			return false, st
		}
		st.ver++
		st.o[in.name] = in.obj
		return true, st
	case c18OpUpdate:
		cur := st.o[in.name]
		if !cur.present {
			return out.status == 404, st
		}
		if cur.kind != in.obj.kind {
			return out.status == 400, st
		}
		if !c18Success(out.status) || out.ver != st.ver+1 {
			return false, st
		}
		st.ver++
		st.o[in.name] = in.obj
		return true, st
	case c18OpDelete:
		if !st.o[in.name].present {
			return out.status == 404, st
		}
		if !c18Success(out.status) || out.ver != st.ver+1 {
			return false, st
		}
		st.ver++
		st.o[in.name] = c18Obj{}
		return true, st
	case c18OpGet:
		if !st.o[in.name].present {
			return out.status == 404, st
		}
		return out.status == 200 && out.obj == st.o[in.name], st
	case c18OpList:
		return out.status == 200 && out.list == st.o, st
	case c18OpReadVer:
		return out.ver == st.ver, st
	case c18OpBad:
		// not a successful request: refused as a client error, nothing changes
		return out.status >= 400 && out.status < 500, st
	case c18OpPurge:
		// no object and no version changes; a member can be purged once
		if in.name == 0 && st.ghost {
			if !c18Success(out.status) {
				return false, st
			}
			st.ghost = false
			return true, st
		}
		return out.status == 404, st
	}
	return false, st
}

type c18HistOp struct {
	task       string
	member     string
	in         c18In
	out        c18Out
	call, ret  uint64
	tcall      time.Duration
	tret       time.Duration
	failed     bool   // 5xx or aborted: outcome unknown
	style      int    // create/update: body style
	bad        string // c18OpBad: flavour
	verRead    int64
	hasVerRead bool
}

const c18StepBudget = 3_000_000

// c18Linearizable checks two histories with porcupine:
//
//	objects  mutations (with the versions they returned), gets and lists against
//	         the map+counter model c18Step;
//	counter  the versions returned by the successful mutations and the versions the
//	         X-Config-Version attacher read for all other answers, against a plain
//	         counter. (Kept apart because the statement does not say that an object
//	         and the version it was stored under become visible atomically: a
//	         mutation writes the object, then the version.)
//
// The search is bounded by a count of model steps (virtual time does not pass
// while it runs, so porcupine's own time-out cannot be used): when the budget
// is exhausted the result is "unknown" (inconclusive, never a violation).
func c18Linearizable(init c18State, hist []c18HistOp) (objOK, verOK, unknown bool) {
	steps := 0
	exhausted := false
	model := porcupine.Model{
		Init: func() interface{} { return init },
		Step: func(state, input, output interface{}) (bool, interface{}) {
			steps++
			if steps > c18StepBudget {
				exhausted = true
				return false, state
			}
			ok, st := c18Step(state.(c18State), input.(c18In), output.(c18Out))
			return ok, st
		},
		Equal: func(a, b interface{}) bool { return a.(c18State) == b.(c18State) },
	}
	counter := porcupine.Model{
		Init: func() interface{} { return init.ver },
		Step: func(state, input, output interface{}) (bool, interface{}) {
			steps++
			if steps > c18StepBudget {
				exhausted = true
				return false, state
			}
			v, out := state.(int64), output.(c18Out)
			if input.(c18In).op == c18OpReadVer {
				return out.ver == v, v
			}
			return out.ver == v+1, v + 1
		},
		Equal: func(a, b interface{}) bool { return a.(int64) == b.(int64) },
	}
	var ops, vops []porcupine.Operation
	for i, h := range hist {
		if h.failed {
			continue
		}
		ops = append(ops, porcupine.Operation{ClientId: i, Input: h.in, Call: int64(h.call), Output: h.out, Return: int64(h.ret)})
		if h.hasVerRead {
			vops = append(vops, porcupine.Operation{ClientId: i, Input: c18In{op: c18OpReadVer}, Call: int64(h.call), Output: c18Out{ver: h.verRead}, Return: int64(h.ret)})
		} else if h.in.op <= c18OpDelete && c18Success(h.out.status) {
			vops = append(vops, porcupine.Operation{ClientId: i, Input: h.in, Call: int64(h.call), Output: h.out, Return: int64(h.ret)})
		}
	}
	objOK = porcupine.CheckOperations(model, ops)
	verOK = porcupine.CheckOperations(counter, vops)
	if exhausted {
		return false, false, true
	}
	return objOK, verOK, false
}

// ---- executor -----------------------------------------------------------------------------

func c18Exec(r *sim.Run, sci interface{}) {
	sc := sci.(*c18Scenario)
	if len(sc.Tasks) == 0 || sc.ReqTimeoutMs <= 0 || (sc.Mode != "mutex" && sc.Mode != "api") {
		return
	}
	nm := sc.Members
	if nm < 1 {
		nm = 1
	}
	if nm > 3 {
		nm = 3
	}
	nops := 0
	for _, t := range sc.Tasks {
		nops += len(t.Ops)
	}
	if nops == 0 {
		return
	}
	rand.Seed(sc.Seed) // clientv3's retry jitter draws from the global source
	c18Names = c18DefaultNames
	if sc.Mode == "api" {
		c18Names = c18Pool(sc)
	}

	n := simnet.New()
	if len(sc.NetDelayUs) > 0 {
		// no delay on the first segment, different delays for the two directions
		// (see harness/simetcd/README.md)
		ds, dr := []time.Duration{0}, []time.Duration{0}
		for _, d := range sc.NetDelayUs {
			if d < 0 {
				d = 0
			}
			ds = append(ds, time.Duration(d)*time.Microsecond)
			dr = append(dr, time.Duration(d)*time.Microsecond*11/10+3*time.Microsecond+time.Duration(211))
		}
		n.PlanFor = func(id int, addr string) (simnet.DirPlan, simnet.DirPlan) {
			return simnet.DirPlan{Delays: ds}, simnet.DirPlan{Delays: dr}
		}
	}
	e := &c18Env{r: r, sc: sc, net: n, store: zzsimetcd.NewStore(), t0: time.Now()}
	e.hooks = zzsimetcd.Hooks{Unary: e.unaryHook,
		StreamOpen: func(ctx context.Context, method string) error { r.Yield("etcd.stream"); return nil },
		WatchSend:  func(id int64, resp *pb.WatchResponse) error { r.Yield("etcd.watchsend"); return nil }}
	e.start()
	reqTimeout := time.Duration(sc.ReqTimeoutMs) * time.Millisecond

	cleanup := func() {
		for _, m := range e.members {
			if m.cli != nil {
				m.cli.Close()
			}
		}
		e.stop()
		e.store.Close()
		n.Shutdown()
	}

	// ---- members (set-up is fault-free and has no latency); the last one is
	// the prober: it takes no part in the workload
	apisChangeChan = make(chan struct{}, 64) // the package-level one was made outside the bubble
	super := &supervisor.Supervisor{}
	lockName := c18LockName
	if sc.Mode == "api" {
		lockName = lockKey
	}
	e.prefix = lockName + "/"
	for i := 0; i <= nm; i++ {
		name := fmt.Sprintf("m%d", i)
		if i == nm {
			name = "prober"
		}
		m, err := e.newMember(i, name)
		if m != nil {
			e.members = append(e.members, m)
		}
		if err != nil {
			r.Violate("C18.harness", "member %s: %v", name, err)
			cleanup()
			return
		}
		// the member's cluster, with Mutex() handing out observed mutexes
		wrapped := &c18Cluster{Cluster: m.cls, e: e, m: m}
		if sc.Mode == "api" && sc.LazyMutex && i < nm {
			wrapped.failLeft = 1
		}
		m.cls = wrapped
		if sc.Mode == "mutex" {
			mx, err := m.cls.Mutex(lockName)
			if err != nil {
				r.Violate("C18.harness", "member %s: Mutex: %v", name, err)
				cleanup()
				return
			}
			m.obs = mx.(*c18ObsMutex)
			if sc.Values == 2 && i < nm && !sc.LazyValue {
				// a second component of the same process asks for "the" cluster mutex
				// of that name (cluster.Mutex hands out a new value per call)
				mx2, err := m.cls.Mutex(lockName)
				if err != nil {
					r.Violate("C18.harness", "member %s: Mutex (second value): %v", name, err)
					cleanup()
					return
				}
				m.obs2 = mx2.(*c18ObsMutex)
			}
		} else {
			srv, err := c18NewServer(m.cls, super)
			if err != nil {
				r.Violate("C18.harness", "member %s: api server: %v", name, err)
				cleanup()
				return
			}
			m.srv = srv
			if wrapped.failLeft == 0 && sc.LazyMutex && i < nm {
				// the start-up call failed: the first requests create the mutex
				continue
			}
			mx, err := srv.getMutex()
			if err != nil {
				r.Violate("C18.harness", "member %s: getMutex: %v", name, err)
				cleanup()
				return
			}
			m.obs = mx.(*c18ObsMutex)
		}
	}
	prober := e.members[nm]
	workers := e.members[:nm]

	// ---- initial content (api mode): written directly into the store
	var init c18State
	if sc.Mode == "api" {
		if sc.InitVersion > 0 {
			init.ver = sc.InitVersion
			e.store.PutKV(prober.cls.Layout().ConfigVersion(), strconv.FormatInt(sc.InitVersion, 10))
		}
		for _, o := range sc.Init {
			i := c18NameIdx(o.Name)
			if i < 0 || c18KindNo(o.Kind) == 0 || c18ValNo(o.Val) == 255 {
				continue
			}
			spec, err := super.NewSpec(c18YAML(o.Name, o.Kind, o.Val))
			if err != nil {
				r.Violate("C18.harness", "NewSpec: %v", err)
				cleanup()
				return
			}
			e.store.PutKV(prober.cls.Layout().ConfigObjectKey(o.Name), spec.YAMLConfig())
			init.o[i] = c18Obj{present: true, kind: c18KindNo(o.Kind), val: c18ValNo(o.Val)}
		}
		if sc.Ghost {
			// a member that has left for good: its lease and, attached to it, its
			// lease entry (what cluster.grantNewLease writes) are still there
			g, err := e.store.LeaseGrant(&pb.LeaseGrantRequest{TTL: zzsimetcd.MaxLeaseTTL})
			if err == nil {
				_, err = e.store.Put(&pb.PutRequest{Key: []byte(prober.cls.Layout().OtherLease("ghost")), Value: []byte(fmt.Sprintf("%x", g.ID)), Lease: g.ID})
			}
			if err != nil {
				r.Violate("C18.harness", "ghost member: %v", err)
				cleanup()
				return
			}
			init.ghost = true
		}
		if init.ver > 1<<31-2 {
			r.Probe("init_version_beyond_31_bits")
		}
		if len(sc.Names) == 3 && c18Names[1] != "b" {
			r.Probe("name_pool_" + c18Names[1])
		}
	}

	// ---- bound after which a task that has not returned is reported
	var maxFault time.Duration
	for _, f := range sc.Faults {
		if d := time.Duration(f.DurUs) * time.Microsecond; d > maxFault {
			maxFault = d
		}
	}
	if maxFault > 20*time.Second {
		maxFault = 20 * time.Second
	}
	bound := 25*time.Minute + 60*time.Second // scheduler stalls: at most 20 x 60 s
	for _, t := range sc.Tasks {
		for _, op := range t.Ops {
			if op.GapUs > 0 {
				bound += time.Duration(op.GapUs) * time.Microsecond
			}
			if op.HoldUs > 0 {
				bound += time.Duration(op.HoldUs) * time.Microsecond
			}
			// a request: attacher read + lock (incl. clean-up) + 4 reads/writes + unlock
			bound += 8*reqTimeout + 8*maxFault + 8*20*time.Duration(sc.LatencyUs+8000)*time.Microsecond + time.Second
		}
	}

	// ---- workload
	e.armed = true
	total, done := 0, 0
	var hist []c18HistOp
	sawFailure := false
	for ti, t := range sc.Tasks {
		ti, t := ti, t
		if len(t.Ops) == 0 {
			continue
		}
		mi := t.Member
		if mi < 0 {
			mi = -mi
		}
		m := workers[mi%nm]
		name := fmt.Sprintf("%s.t%d", m.name, ti)
		total++
		r.Go(name, func() {
			defer func() { done++ }()
			// every task runs on its own sub-microsecond offset (all scenario
			// durations are whole microseconds)
			r.Sleep(time.Duration(101 + 13*ti))
			for oi, op := range t.Ops {
				if r.Violated() || r.Aborted() {
					return
				}
				g := op.GapUs
				if g < 0 {
					g = 0
				}
				e.tsleep(time.Duration(g) * time.Microsecond)
				if sc.Mode == "mutex" {
					id := fmt.Sprintf("%s#%d", name, oi)
					mx := m.obs
					if sc.Values == 2 && op.Obj == 1 && (m.obs2 == nil || op.Renew) {
						// a value of the name created in the middle of the run
						if mx2, err := m.cls.Mutex(lockName); err == nil {
							if e.acquired > 0 {
								r.Probe("mutex_value_created_after_lock_unlock_cycles")
							}
							m.obs2 = mx2.(*c18ObsMutex)
						} else {
							r.Eventf("%s cluster.Mutex failed", id)
						}
					}
					if op.Obj == 1 && m.obs2 != nil {
						mx = m.obs2
						r.Probe("second_mutex_value_of_member_used")
					}
					r.Eventf("%s Lock...", id)
					err := mx.LockAs(id)
					r.Yield("lock-returned") // calls that end at the same instant return in runtime order
					if err != nil {
						r.Eventf("%s Lock failed", id)
						continue
					}
					r.Eventf("%s acquired", id)
					h := op.HoldUs
					if h < 0 {
						h = 0
					}
					e.tsleep(time.Duration(h) * time.Microsecond)
					err = mx.UnlockAs(id)
					r.Yield("unlock-returned")
					r.Eventf("%s Unlock -> %v", id, err == nil)
					continue
				}
				// api mode
				ni := c18NameIdx(op.Name)
				if op.Req != "list" && op.Req != "purge" && ni < 0 {
					continue
				}
				obj := c18Obj{present: true, kind: c18KindNo(op.Kind), val: c18ValNo(op.Val)}
				if (op.Req == "create" || op.Req == "update" || op.Req == "bad-post" || op.Req == "bad-put") && (obj.kind == 0 || obj.val == 255) {
					continue
				}
				style := op.Style
				if style < 0 || style > 3 {
					style = 0
				}
				h := c18HistOp{task: name, member: m.name}
				var method, path, body string
				switch op.Req {
				case "create":
					h.in = c18In{op: c18OpCreate, name: ni, obj: obj}
					h.style = style
					method, path, body = "POST", APIPrefix+ObjectPrefix, c18Body(op.Name, op.Kind, op.Val, style)
				case "update":
					h.in = c18In{op: c18OpUpdate, name: ni, obj: obj}
					h.style = style
					method, path, body = "PUT", APIPrefix+ObjectPrefix+"/"+op.Name, c18Body(op.Name, op.Kind, op.Val, style)
				case "bad-post":
					b, ok := c18BadBody(op.Bad, op.Name, "", op.Kind, op.Val)
					if !ok || op.Bad == "mismatch" {
						continue
					}
					h.in = c18In{op: c18OpBad, name: ni, note: fmt.Sprintf("POST [%s] %q", op.Bad, b)}
					h.bad = op.Bad
					method, path, body = "POST", APIPrefix+ObjectPrefix, b
				case "bad-put":
					b, ok := c18BadBody(op.Bad, op.Name, op.Other, op.Kind, op.Val)
					if !ok || op.Bad == "badname" {
						continue
					}
					h.in = c18In{op: c18OpBad, name: ni, note: fmt.Sprintf("PUT %s [%s] %q", op.Name, op.Bad, b)}
					h.bad = op.Bad
					method, path, body = "PUT", APIPrefix+ObjectPrefix+"/"+op.Name, b
				case "purge":
					who := 1
					if op.Name == "ghost" {
						who = 0
					} else if op.Name != "nobody" {
						continue
					}
					h.in = c18In{op: c18OpPurge, name: who}
					method, path = "DELETE", APIPrefix+"/status/members/"+op.Name
				case "delete":
					h.in = c18In{op: c18OpDelete, name: ni}
					method, path = "DELETE", APIPrefix+ObjectPrefix+"/"+op.Name
				case "get":
					h.in = c18In{op: c18OpGet, name: ni}
					method, path = "GET", APIPrefix+ObjectPrefix+"/"+op.Name
				case "list":
					h.in = c18In{op: c18OpList}
					method, path = "GET", APIPrefix+ObjectPrefix
				default:
					continue
				}
				if op.Enc && strings.Contains(op.Name, "~") && (op.Req == "update" || op.Req == "delete" || op.Req == "get") {
					h.in.enc = true
					path = strings.Replace(path, "~", "%7E", 1)
				}
				r.Eventf("%s %s %s %s%s %s%d", name, method, path, op.Kind, op.Val, op.Bad, style)
				h.call, h.tcall = r.Seq(), r.Now()
				resp := c18Do(m, method, path, body)
				h.ret, h.tret = r.Seq(), r.Now()
				r.Yield("http-returned")
				h.out = c18Out{status: resp.status, ver: resp.ver}
				switch {
				case resp.aborted || resp.status >= 500:
					h.failed = true
					sawFailure = true
					if resp.aborted {
						r.Probe("request_aborted_by_panic_outside_recoverer")
					}
				case h.in.op == c18OpGet && resp.status == 200:
					var mm map[string]interface{}
					if err := yaml.Unmarshal([]byte(resp.body), &mm); err != nil {
						// the statement says nothing about reads: a read whose body cannot
						// be used (e.g. an error report appended after the answer had been
						// started) is left out like a 5xx answer
						r.Probe("read_answered_200_with_unusable_body")
						h.failed, sawFailure = true, true
						break
					}
					nn, o := c18ObjFromMap(mm)
					if nn != op.Name {
						o = c18Obj{present: true, kind: 99}
					}
					h.out.obj = o
				case h.in.op == c18OpList && resp.status == 200:
					var l []map[string]interface{}
					if err := yaml.Unmarshal([]byte(resp.body), &l); err != nil {
						r.Probe("read_answered_200_with_unusable_body")
						h.failed, sawFailure = true, true
						break
					}
					for _, mm := range l {
						nn, o := c18ObjFromMap(mm)
						if i := c18NameIdx(nn); i >= 0 {
							h.out.list[i] = o
						}
					}
				}
				// every answer that is not a successful mutation carries the version
				// the attacher middleware read before the handler ran
				succ := h.in.op <= c18OpDelete && c18Success(resp.status)
				if !h.failed && !succ && resp.ver >= 0 {
					h.hasVerRead, h.verRead = true, resp.ver
				}
				hist = append(hist, h)
				r.Eventf("%s -> %d ver %d", name, resp.status, resp.ver)
			}
		})
	}

	// ---- faults
	if len(sc.Faults) > 0 {
		faults := sc.Faults
		total++
		r.Go("faults", func() {
			defer func() { done++ }()
			r.Sleep(time.Duration(307))
			t0 := r.Now()
			for _, f := range faults {
				if r.Violated() || r.Aborted() || done >= total-1 {
					return
				}
				if d := time.Duration(f.AtUs)*time.Microsecond - (r.Now() - t0); d > 0 {
					e.tsleep(d)
				} else {
					r.Sleep(0)
				}
				if done >= total-1 {
					return
				}
				dur := time.Duration(f.DurUs) * time.Microsecond
				if dur < 0 {
					dur = 0
				}
				if dur > 20*time.Second {
					dur = 20 * time.Second
				}
				nn := f.N
				if nn <= 0 {
					nn = 1
				}
				if nn > 5 {
					nn = 5
				}
				meth := f.Method
				switch meth {
				case "Txn", "DeleteRange", "Range", "Put":
				default:
					meth = "any"
				}
				switch f.Kind {
				case "slow", "slowreply":
					if dur > e.maxSlow {
						e.maxSlow = dur
					}
					e.active = append(e.active, &c18ActiveFault{kind: f.Kind, method: meth, left: nn, dur: dur})
				case "err":
					code := codes.Unavailable
					if f.Code == "deadline" {
						code = codes.DeadlineExceeded
					}
					e.active = append(e.active, &c18ActiveFault{kind: "err", method: meth, left: nn, code: code})
				case "lost":
					e.active = append(e.active, &c18ActiveFault{kind: "lost", method: meth, left: nn})
				case "stop":
					e.stop()
					r.Fault("etcd.server_stop")
					e.injected++
					r.Eventf("fault stop for %v", dur)
					if dur > e.maxDown {
						e.maxDown = dur
					}
					e.tsleep(dur)
					e.start()
					r.Eventf("server started again")
				}
			}
		})
	}

	// ---- wait for the tasks, with a bound
	deadline := r.Now() + bound
	step := time.Millisecond
	for done < total && r.Now() < deadline && !r.Aborted() {
		e.tsleep(step)
		if step < bound/40 {
			step *= 2
		}
	}
	if r.Aborted() {
		cleanup()
		r.Probe("c18.step_budget_exhausted")
		return
	}
	if r.Violated() {
		cleanup()
		return
	}
	if done < total {
		r.Violate("C18.lock-never-returns", "%d of %d tasks have not returned %v after the start of the workload (bound: sum of gaps, hold times, 8 request time-outs of %v per operation, fault durations, and 26 min for scheduler stalls); holders now: %d\n%s",
			total-done, total, bound, reqTimeout, len(e.holders), e.describe())
		cleanup()
		return
	}

	// ---- faults are over: quiet period, then the liveness probe
	e.active = nil
	e.armed = false
	if !e.up {
		e.start()
	}
	quiet := e.maxSlow + 40*time.Duration(sc.LatencyUs)*time.Microsecond + 100*time.Millisecond
	e.tsleep(quiet)
	if len(e.holders) != 0 {
		r.Violate("C18.lock-held-after-return", "all tasks have returned but the mutex is still held (a Lock that returned nil was never followed by Unlock): %v\n%s", e.holders, e.describe())
		cleanup()
		return
	}
	// ---- O2
	if sc.Mode == "api" {
		if e.twoHolders {
			// (only reachable with a suppressed two-holders class) everything else
			// would be a consequence of the broken exclusion
			r.Probe("o2_skipped_after_two_holders")
		} else {
			c18JudgeAPI(r, e, sc, init, hist, sawFailure, prober)
		}
	} else {
		if e.acquired >= 2 && e.contended >= 1 {
			r.Nontrivial()
		}
		if e.lockFails > 0 {
			r.Probe("lock_failed_or_timed_out")
		}
		if e.contended > 0 {
			r.Probe("lock_acquired_after_waiting")
		}
		r.SetSig(fmt.Sprintf("mutex|%s|fails=%d", strings.Join(e.acqOrder, ","), e.lockFails))
	}
	if r.Violated() || r.Aborted() {
		cleanup()
		return
	}
	// ---- liveness
	if e.acquired > 0 || e.lockFails > 0 {
		e.probeLiveness(prober)
	}
	for _, m := range workers {
		if m.failedUnlock > 0 {
			r.Probe("unlock_failed")
		}
	}
	cleanup()
}

// probeLiveness: "a failed or timed-out acquisition leaves it free for others".
// Everybody has finished, faults are over. A member that never took part must be
// able to acquire the mutex.
func (e *c18Env) probeLiveness(p *c18Member) {
	r := e.r
	// keys left by a failed UNLOCK: the statement only speaks of failed
	// acquisitions; accepted and removed
	var orphanOf []*c18Member
	for _, m := range e.members {
		if m == p || !e.hasKey(m) {
			continue
		}
		if m.lastOp == "unlock-fail" {
			r.Probe("key_left_by_failed_unlock_removed_by_harness")
			e.store.DeleteKey(e.prefix + m.leaseHex)
			continue
		}
		orphanOf = append(orphanOf, m)
	}
	if len(orphanOf) > 0 {
		r.Probe("key_left_by_failed_acquisition")
	}
	reqTimeout := time.Duration(e.sc.ReqTimeoutMs) * time.Millisecond
	t0 := r.Now()
	for i := 0; i < 25; i++ {
		id := fmt.Sprintf("prober#%d", i)
		err := p.obs.LockAs(id)
		r.Yield("probe-returned")
		if err == nil {
			r.Eventf("prober acquired at attempt %d", i)
			if i > 0 {
				r.Probe("prober_needed_several_attempts")
			}
			p.obs.UnlockAs(id)
			return
		}
		r.Eventf("prober attempt %d failed", i)
		if r.Aborted() || r.Violated() {
			return
		}
		if i >= 2 {
			var blockers []string
			for _, m := range e.members {
				if m != p && e.hasKey(m) {
					blockers = append(blockers, fmt.Sprintf("%s%s of %s (its last mutex operation: %s)", e.prefix, m.leaseHex, m.name, m.lastOp))
				}
			}
			if len(blockers) > 0 {
				if c18Violate(r, "C18.failed-lock-blocks-others", "all tasks have returned, nobody holds the mutex and faults are over, but member %q cannot acquire it (%d attempts with time-out %v since %v): lock key(s) left behind by a failed acquisition: %v\n%s",
					p.name, i+1, reqTimeout, t0, blockers, e.describe()) {
					return
				}
				for _, m := range e.members {
					if m != p {
						e.store.DeleteKey(e.prefix + m.leaseHex)
					}
				}
			}
		}
		// gRPC reconnect back-off after a server stop: up to 2 x outage + 3 s
		e.tsleep(time.Second + 2*e.maxDown/5)
	}
	r.Violate("C18.mutex-not-free", "all tasks have returned, nobody holds the mutex, faults are over and no lock key of another member is in the store, but member %q could not acquire it in 25 attempts\n%s", p.name, e.describe())
}

func c18JudgeAPI(r *sim.Run, e *c18Env, sc *c18Scenario, init c18State, hist []c18HistOp, sawFailure bool, prober *c18Member) {
	describe := func() string {
		var b strings.Builder
		fmt.Fprintf(&b, "initial state %v; history (invoke..return event numbers):", init)
		hs := append([]c18HistOp(nil), hist...)
		sort.SliceStable(hs, func(i, j int) bool { return hs[i].call < hs[j].call })
		for _, h := range hs {
			x := ""
			if h.failed {
				x = " [outcome unknown]"
			}
			if h.hasVerRead {
				x += fmt.Sprintf(" [X-Config-Version %d]", h.verRead)
			}
			fmt.Fprintf(&b, "\n  %d..%d %s: %s%s", h.call, h.ret, h.task, c18Describe(h.in, h.out), x)
		}
		return b.String()
	}
	// statuses the statement allows
	var succ []c18HistOp
	for _, h := range hist {
		if h.failed {
			continue
		}
		okStatus := false
		switch h.in.op {
		case c18OpCreate:
			okStatus = c18Success(h.out.status) || h.out.status == 409
		case c18OpUpdate:
			okStatus = c18Success(h.out.status) || h.out.status == 404 || h.out.status == 400
		case c18OpDelete:
			okStatus = c18Success(h.out.status) || h.out.status == 404
		case c18OpGet:
			okStatus = h.out.status == 200 || h.out.status == 404
		case c18OpList:
			okStatus = h.out.status == 200
		case c18OpBad:
			// a request that is not acceptable is not a successful one: it is refused
			// (statement silent about the code: any 4xx) ...
			okStatus = h.out.status >= 400 && h.out.status < 500
		case c18OpPurge:
			okStatus = c18Success(h.out.status) || h.out.status == 404
		}
		if h.in.enc && h.out.status >= 400 && h.out.status < 500 {
			okStatus = true
		}
		if !okStatus {
			r.Violate("C18.unexpected-status", "%s: %s\n%s", h.task, c18Describe(h.in, h.out), describe())
			return
		}
		if h.in.op <= c18OpDelete && c18Success(h.out.status) {
			if h.out.ver < 0 {
				r.Violate("C18.version-missing", "%s: successful %s without %s header\n%s", h.task, c18Describe(h.in, h.out), ConfigVersionKey, describe())
				return
			}
			succ = append(succ, h)
		}
	}
	// did the stored version ever go backwards (or was it rewritten with the same
	// value)? With a failed request in the history that is the late write of a
	// request the client had given up on.
	regress := ""
	{
		vkey := prober.cls.Layout().ConfigVersion()
		prev := int64(-1)
		for _, rec := range e.store.History() {
			for _, ev := range rec.Events {
				if string(ev.Kv.Key) != vkey || ev.Type != 0 {
					continue
				}
				v, err := strconv.ParseInt(string(ev.Kv.Value), 10, 64)
				if err != nil {
					continue
				}
				if prev >= 0 && v <= prev && regress == "" {
					regress = fmt.Sprintf("the stored version went from %d to %d in store revision %d (at %v)", prev, v, rec.Rev, rec.At.Sub(e.t0))
				}
				prev = v
			}
		}
	}
	dupClass := func(plain string) string {
		if regress != "" && sawFailure {
			return "C18.version-rollback-by-late-write"
		}
		return plain
	}
	sort.SliceStable(succ, func(i, j int) bool { return succ[i].out.ver < succ[j].out.ver })
	for i := 1; i < len(succ); i++ {
		if succ[i].out.ver == succ[i-1].out.ver {
			if c18Violate(r, dupClass("C18.version-not-distinct"), "two successful mutations returned X-Config-Version %d: [%s] by %s and [%s] by %s; %s\n%s", succ[i].out.ver,
				c18Describe(succ[i-1].in, succ[i-1].out), succ[i-1].task, c18Describe(succ[i].in, succ[i].out), succ[i].task, regress, describe()) {
				return
			}
			r.SetSig("api|suppressed")
			return
		}
	}
	var sig strings.Builder
	sig.WriteString("api|")
	for _, h := range succ {
		fmt.Fprintf(&sig, "%s%d=%v;", c18OpNames[h.in.op][:1], h.in.name, h.in.obj)
	}
	overlap := false
	for i := range hist {
		for j := range hist {
			if i != j && hist[i].in.op <= c18OpDelete && hist[j].in.op <= c18OpDelete && hist[i].call < hist[j].ret && hist[j].call < hist[i].ret {
				overlap = true
			}
		}
	}
	for _, h := range hist {
		if h.failed {
			continue
		}
		if h.in.enc {
			if h.out.status < 300 {
				r.Probe("percent_encoded_tilde_in_url_understood")
			} else {
				r.Probe("percent_encoded_tilde_in_url_answered_4xx")
			}
		}
		switch {
		case h.in.op == c18OpBad:
			r.Probe("unacceptable_request_refused:" + h.bad)
			if h.out.status != 400 {
				r.Probe("unacceptable_request_refused_with_other_code_than_400")
			}
			continue
		case h.in.op == c18OpPurge:
			r.Probe(fmt.Sprintf("purge_member_%d", h.out.status))
			continue
		case h.in.op <= c18OpDelete && c18Success(h.out.status) && h.out.status != 200 && h.out.status != 201:
			r.Probe("mutation_succeeded_with_other_2xx")
		case h.in.op <= c18OpUpdate && h.style > 0 && c18Success(h.out.status):
			r.Probe(fmt.Sprintf("body_style_%d_stored", h.style))
		}
		switch h.out.status {
		case 409:
			r.Probe("create_existing_409")
		case 400:
			r.Probe("update_other_kind_400")
		case 404:
			if h.in.op != c18OpGet {
				r.Probe("mutation_missing_404")
			}
		}
	}
	if sawFailure && len(sc.Faults) == 0 && sc.ReqTimeoutMs >= 1_800_000 {
		for _, h := range hist {
			if h.failed {
				r.Violate("C18.server-error-without-fault", "%s: %s in a run without faults and with request time-out %d ms\n%s", h.task, c18Describe(h.in, h.out), sc.ReqTimeoutMs, describe())
				return
			}
		}
	}
	if sawFailure {
		r.Probe("run_with_5xx_answers")
		// O2': increasing in real-time order
		for _, a := range succ {
			for _, b := range succ {
				if a.ret < b.call && a.out.ver >= b.out.ver {
					c18Violate(r, dupClass("C18.version-not-increasing"), "[%s] by %s returned before [%s] by %s was invoked, but its version is not smaller; %s\n%s",
						c18Describe(a.in, a.out), a.task, c18Describe(b.in, b.out), b.task, regress, describe())
					return
				}
			}
		}
		if len(succ) >= 2 && overlap {
			r.Nontrivial()
		}
		r.SetSig(sig.String() + "|5xx")
		return
	}
	// ---- full O2
	for i, h := range succ {
		if want := init.ver + int64(i) + 1; h.out.ver != want {
			r.Violate("C18.version-gap", "the %d successful mutations must carry the versions %d..%d; the %d-th smallest is %d [%s]\n%s",
				len(succ), init.ver+1, init.ver+int64(len(succ)), i+1, h.out.ver, c18Describe(h.in, h.out), describe())
			return
		}
	}
	// fold of the successes in version order
	want := init
	for _, h := range succ {
		want.ver = h.out.ver
		switch h.in.op {
		case c18OpCreate, c18OpUpdate:
			want.o[h.in.name] = h.in.obj
		case c18OpDelete:
			want.o[h.in.name] = c18Obj{}
		}
	}
	// "the stored objects equal the result of applying the successful requests in
	// version order": the store itself is read (the statement does not promise that
	// the admin GET is available; it may e.g. wait for the cluster lock)
	var got c18State
	extra := ""
	if resp, err := e.store.Range(&pb.RangeRequest{Key: []byte(prober.cls.Layout().ConfigObjectPrefix()), RangeEnd: zzsimetcd.PrefixEnd(prober.cls.Layout().ConfigObjectPrefix())}); err == nil {
		for _, kv := range resp.Kvs {
			var mm map[string]interface{}
			if yaml.Unmarshal(kv.Value, &mm) != nil {
				extra += " " + string(kv.Key) + "(not YAML)"
				continue
			}
			nn, o := c18ObjFromMap(mm)
			if i := c18NameIdx(nn); i >= 0 && string(kv.Key) == prober.cls.Layout().ConfigObjectKey(nn) {
				got.o[i] = o
			} else {
				extra += " " + string(kv.Key)
			}
		}
	}
	if resp, err := e.store.Range(&pb.RangeRequest{Key: []byte(prober.cls.Layout().ConfigVersion())}); err == nil && len(resp.Kvs) > 0 {
		v, err := strconv.ParseInt(string(resp.Kvs[0].Value), 10, 64)
		if err != nil {
			v = -1
		}
		got.ver = v
	}
	if got.o != want.o || extra != "" {
		r.Violate("C18.final-state-mismatch", "the store holds %v=%v %v=%v %v=%v%s, but applying the successful mutations in version order gives %v %v %v\n%s",
			c18Names[0], got.o[0], c18Names[1], got.o[1], c18Names[2], got.o[2], extra, want.o[0], want.o[1], want.o[2], describe())
		return
	}
	if got.ver != want.ver {
		r.Violate("C18.final-version-mismatch", "the stored config version is %d after %d successful mutations starting from %d\n%s", got.ver, len(succ), init.ver, describe())
		return
	}
	// the listing of the admin API, when it is available, must say the same (a read
	// at quiescence). Faults are over, but a client may still be reconnecting and a
	// scheduler stall may exceed a small request time-out: a few attempts
	var final c18Resp
	var l []map[string]interface{}
	listed := false
	for i := 0; i < 6 && !listed; i++ {
		final = c18Do(prober, "GET", APIPrefix+ObjectPrefix, "")
		r.Yield("final-listing-returned")
		if r.Aborted() {
			return
		}
		if final.status == 200 && yaml.Unmarshal([]byte(final.body), &l) == nil {
			listed = true
			break
		}
		e.tsleep(time.Second + 2*e.maxDown/5)
	}
	if !listed {
		// not a violation of the statement; when a lock key left by a failed
		// acquisition is the cause, the liveness probe below reports that
		r.Probe("final_listing_unavailable_store_read_instead")
	} else {
		var lst c18State
		lextra := ""
		for _, mm := range l {
			nn, o := c18ObjFromMap(mm)
			if i := c18NameIdx(nn); i >= 0 {
				lst.o[i] = o
			} else {
				lextra += " " + nn
			}
		}
		if lst.o != want.o || lextra != "" {
			r.Violate("C18.final-state-mismatch", "final listing %v=%v %v=%v %v=%v%s, but applying the successful mutations in version order gives %v %v %v\n%s",
				c18Names[0], lst.o[0], c18Names[1], lst.o[1], c18Names[2], lst.o[2], lextra, want.o[0], want.o[1], want.o[2], describe())
			return
		}
		if final.ver != want.ver {
			r.Violate("C18.final-version-mismatch", "the X-Config-Version of the final listing is %d after %d successful mutations starting from %d\n%s", final.ver, len(succ), init.ver, describe())
			return
		}
	}
	if objOK, verOK, unknown := c18Linearizable(init, hist); unknown {
		r.Probe("porcupine_inconclusive")
	} else if !objOK {
		r.Violate("C18.not-linearizable", "no linearisation of the history (mutations with their versions, gets, lists) against the map+counter model\n%s", describe())
		return
	} else if !verOK {
		r.Violate("C18.version-reads-not-linearizable", "the versions returned by the successful mutations and the X-Config-Version values of the other answers have no linearisation against a counter\n%s", describe())
		return
	} else {
		r.Probe("porcupine_linearizable")
	}
	if len(succ) >= 2 && overlap {
		r.Nontrivial()
	}
	if overlap {
		r.Probe("mutations_overlapped")
	}
	r.SetSig(sig.String())
}

func TestVerifC18(t *testing.T) {
	logger.InitNop()
	supervisor.Register(&c18Ctl{kind: c18KindA})
	supervisor.Register(&c18Ctl{kind: c18KindB})
	hdrv.Main(t, &hdrv.Harness{
		ID:       "C18",
		Gen:      c18Gen,
		New:      func() interface{} { return &c18Scenario{} },
		Exec:     c18Exec,
		MaxSteps: 150000,
		Rule: "scenario = mode mutex (1-3 members x 1-3 goroutines, 1-4 Lock/hold/Unlock each, request time-out 50ms-1.7s, RPC latency 0-80ms, hold times up to 2.5 x time-out; in 30% every member has two cluster.Mutex values for the one name) or mode api (1-3 api servers, 2-4 client tasks, <=20 create/update/delete/get/list plus unacceptable create/update requests and member purges on 2-3 names from five name pools, four body styles, initial version up to 1e12, profiles none / latency / errors), plus timed faults (slow request applied after the client gave up, slow reply, refused RPC, reply lost after apply, server stop/start) and a final liveness probe by a member that took no part; " +
			"non-trivial = mutex: >=2 acquisitions and one of them had to wait for a holder; api: >=2 successful mutations and two mutation requests overlapped; distinct = distinct acquisition order + failure count / distinct version-ordered sequence of successful mutations",
		Real: []string{"pkg/cluster mutex.Lock/Unlock, cluster.Mutex/getSession/initLease/grantNewLease/Get/Put/Delete/GetPrefix (instrumented sync)", "go.etcd.io/etcd/client/v3 + concurrency.Session/Mutex, google.golang.org/grpc over simnet",
			"pkg/api Server.Lock/Unlock/getMutex, registerAPIs, dynamicMux.reloadAPIs (chi router, StripSlashes, API logger, config-version attacher, recoverer), createObject/updateObject/deleteObject/getObject/listObjects, _getVersion/_plusOneVersion/_getObject/_putObject/_deleteObject/_listObjects, supervisor.NewSpec"},
		Stub: []string{"etcd server = simetcd (harness/simetcd)", "cluster value built by an export helper around the client (no embedded etcd, no heartbeat/keepAliveLease goroutine)", "the session's lease keep-alive stream (clientv3 lessor loops) is replaced by a channel fed once", "api.Server built without ListenAndServe and without the dynamicMux.run goroutine; requests are served in-process (httptest recorder)", "supervisor = zero value (only NewSpec is used) with two registered trivial kinds", "network = simnet"},
		Assumptions: []string{
			"lease expiry while holding is not generated (leases are MaxLeaseTTL)",
			"enter = Lock returned nil, leave = Unlock is called; one cluster.Mutex value per member",
			"a lock key left by a failed Unlock is accepted (statement speaks of failed acquisitions) and removed before the liveness probe",
			"liveness probe: violation only with a concrete blocking key of another member in the store after >=3 failed attempts, or after 25 failed attempts",
			"full O2 only on runs without 5xx answers; with 5xx answers only distinct + real-time-increasing versions of the successes",
			"porcupine search bounded by 3e6 model steps; exhausted = inconclusive",
			"X-Config-Version of non-mutating / refused requests is treated as a read of the counter inside the request interval",
			"a successful create/update/delete/purge is any 2xx answer; reads answered 5xx or with an unusable body are left out; the final state is read from the store, the admin listing is only compared when it answers",
			"an unacceptable create/update request (not YAML, unknown kind, missing / invalid name, empty body, URL name != body name) is not a successful request: any 4xx is accepted, 2xx is C18.unexpected-status, and it must not change objects or version",
			"purging a member (DELETE /status/members/x) is not a create/update/delete of an object: 200 once for the existing departed member, 404 otherwise, no version change",
			"a name whose '~' is percent-encoded in the URL: normal outcome or 4xx without change are both accepted (statement silent)",
		},
	})
}
