package cluster

// Export helper of the C18 harness (injected as pkg/cluster/zz_verif_c18_export.go
// through harness/C18/check.json). It exposes a constructor of the unexported
// `cluster` type around a given etcd client, as the C19 harness does in-package:
// everything else (initLayout, initLease, grantNewLease, getSession, Mutex, Get,
// Put, Delete, GetPrefix ...) is the real code of this package.

import (
	"time"

	clientv3 "go.etcd.io/etcd/client/v3"

	"github.com/megaease/easegress/pkg/option"
)

// VerifC18Member is one simulated easegress member: a real `cluster` value
// whose etcd client was made by the harness (connected to simetcd over simnet).
type VerifC18Member struct {
	c *cluster
}

// VerifC18NewMember builds the cluster value of member `name` (no embedded etcd
// server, no heartbeat / defrag / keepAliveLease goroutines).
func VerifC18NewMember(name string, client *clientv3.Client, requestTimeout time.Duration) *VerifC18Member {
	c := &cluster{
		opt:            &option.Options{Name: name},
		requestTimeout: requestTimeout,
		client:         client,
		done:           make(chan struct{}),
	}
	c.initLayout()
	return &VerifC18Member{c: c}
}

// InitLease runs the real cluster.initLease (reads /leases/<name>, reuses the
// lease or grants a new one and stores it).
func (m *VerifC18Member) InitLease() error { return m.c.initLease() }

// Cluster returns the member's cluster as the public interface.
func (m *VerifC18Member) Cluster() Cluster { return m.c }

// Lease returns the member's lease id (0 if none).
func (m *VerifC18Member) Lease() int64 {
	id, err := m.c.getLease()
	if err != nil {
		return 0
	}
	return int64(id)
}

// HasSession reports whether getSession has created the member's session.
func (m *VerifC18Member) HasSession() bool {
	m.c.sessionMutex.RLock()
	defer m.c.sessionMutex.RUnlock()
	return m.c.session != nil
}

// SetRequestTimeout changes the request time-out used by NEW mutexes and by all
// later Get/Put/Delete calls (only used between the set-up and the workload).
func (m *VerifC18Member) SetRequestTimeout(d time.Duration) { m.c.requestTimeout = d }
