//go:build go1.21

package httpserver

import (
	"bytes"
	"fmt"
	"net/http"
	"strconv"
	"strings"
	"testing"
	"time"

	"github.com/megaease/easegress/pkg/filters/proxy"
	"verif/simkit/hdrv"
	"verif/simkit/sim"
)

// ---- generators -----------------------------------------------------------

var hcMethods = []string{"GET", "POST", "PUT", "DELETE", "PATCH", "OPTIONS", "PURGE", "HEAD"}

func hcGenExchange(rng *sim.Rand, prop string, sc *hcScenario) hcExchange {
	ex := hcExchange{}
	ex.Method = hcMethods[rng.Intn(len(hcMethods))]
	ex.Path = rng.PickStr("/", "/a", "/a/b", "/a%20b", "/x/y/z.json", "/caf%C3%A9", "/a//b", "/a;p=1")
	if rng.Bool(0.15) {
		// reserved characters that are data here because they are percent-encoded
		ex.Path = rng.PickStr("/a%3Fb", "/a%23b", "/x%2Fy", "/100%25", "/a%2541", "/q%3Fk=v/z", "/sp%20ace%2Fd")
	}
	ex.Query = rng.PickStr("", "", "a=1", "a=1&a=2", "q=%20x&y", "x=a+b", "&&", "k=v%26w", "a=1;b=2", "x=%zz", "%3F=%26%23", "u=http://h/p?q=1", "e=")
	e2e := [][2]string{{"X-A", "1"}, {"X-B", "two words"}, {"Accept", "text/plain"}, {"Content-Type", "application/octet-stream"},
		{"Cookie", "k=v; k2=v2"}, {"Authorization", "Bearer abc"}, {"X-Multi", "m1"}, {"X-Multi", "m2"}, {"x-lower", "lc"}, {"X-Empty", ""}}
	for _, kv := range e2e {
		if rng.Bool(0.35) {
			ex.Hdr = append(ex.Hdr, kv)
		}
	}
	hop := [][2]string{{"Keep-Alive", "timeout=5"}, {"Proxy-Connection", "keep-alive"}, {"Proxy-Authenticate", "Basic"},
		{"Proxy-Authorization", "Basic Zm9v"}, {"TE", "trailers"}, {"Upgrade", "foo/2"}}
	for _, kv := range hop {
		if rng.Bool(0.2) {
			ex.Hdr = append(ex.Hdr, kv)
		}
	}
	if rng.Bool(0.3) {
		// headers named by Connection are hop-by-hop too
		for _, t := range []string{"X-Hop1", "x-hop2", "keep-alive"} {
			if rng.Bool(0.5) {
				ex.ConnTokens = append(ex.ConnTokens, t)
				ex.ConnSplit = rng.Bool(0.4)
				if t != "keep-alive" && rng.Bool(0.8) {
					ex.Hdr = append(ex.Hdr, [2]string{t, "hopval"})
				}
			}
		}
	}
	if ex.Method != "GET" && ex.Method != "DELETE" && ex.Method != "OPTIONS" || rng.Bool(0.1) {
		ex.BodyLen = rng.Pick(0, 1, 10, 100, 1000, 5000, rng.Intn(20000))
		ex.Chunked = rng.Bool(0.4)
		ex.ChunkSz = rng.Pick(1, 7, 100, 4096, 0)
		ex.Inc = rng.Bool(0.3)
		ex.ReqGzip = prop == "C03" && ex.BodyLen > 0 && rng.Bool(0.2)
		ex.Expect100 = ex.BodyLen > 0 && rng.Bool(0.12)
	}
	ex.AcceptEnc = rng.PickStr("", "", "gzip", "gzip, deflate", "identity", "br")
	ex.NewConn = rng.Bool(0.2)
	ex.GapUs = rng.Pick(0, 0, 1, 1000, 100000)
	ex.Status = rng.Pick(200, 200, 200, 201, 204, 301, 400, 404, 500, 503)
	re2e := [][2]string{{"X-R1", "r1"}, {"X-R2", "a"}, {"X-R2", "b"}, {"Content-Type", "text/plain; charset=utf-8"},
		{"Set-Cookie", "s=1"}, {"Set-Cookie", "t=2"}, {"Cache-Control", "no-store"}, {"Location", "/elsewhere"}}
	for _, kv := range re2e {
		if rng.Bool(0.35) {
			ex.RHdr = append(ex.RHdr, kv)
		}
	}
	if ex.Status != 204 {
		ex.RBodyLen = rng.Pick(0, 1, 10, 100, 1000, 5000, rng.Intn(20000))
		ex.RChunked = rng.Bool(0.3)
		ex.RGzip = rng.Bool(0.25)
		ex.RInc = rng.Bool(0.3)
		ex.RLastCoalesced = rng.Bool(0.5)
		ex.RCloseDelim = !ex.RChunked && rng.Bool(0.08)
		if ex.RGzip && ex.RBodyLen >= 100 && rng.Bool(0.08) {
			ex.RGzipBad = rng.Pick(1, 2)
		}
	}
	return ex
}

func hcGenNet(rng *sim.Rand, sc *hcScenario) {
	for i := 0; i < 4; i++ {
		sc.Seg[i] = rng.Pick(0, 0, 0, 1, 3, 17, 100, 1460)
		sc.DelayUs[i] = rng.Pick(0, 0, 1, 50, 1000)
	}
}

// hcTameNet keeps runs cheap: tiny segments only when the bodies are small.
func hcTameNet(sc *hcScenario) {
	maxBody := 0
	for _, cl := range sc.Clients {
		for _, ex := range cl.Ex {
			if ex.BodyLen > maxBody {
				maxBody = ex.BodyLen
			}
			if ex.RBodyLen > maxBody {
				maxBody = ex.RBodyLen
			}
		}
	}
	for i := range sc.Seg {
		switch {
		case maxBody > 50000 && sc.Seg[i] != 0 && sc.Seg[i] < 1460:
			sc.Seg[i] = 1460
		case maxBody > 3000 && sc.Seg[i] != 0 && sc.Seg[i] < 100:
			sc.Seg[i] = 100
		case maxBody > 300 && sc.Seg[i] != 0 && sc.Seg[i] < 17:
			sc.Seg[i] = 17
		}
	}
}

// hcGenKill: now and then the backend closes the kept-alive connection a request
// arrives on without answering (an idle connection the backend had given up). The
// gateway's HTTP client re-sends a request on a new connection when it considers
// it replayable (no body or a rewindable one, and an idempotent method or an
// Idempotency-Key header), otherwise the call fails.
func hcGenKill(rng *sim.Rand, ex *hcExchange) {
	if !rng.Bool(0.07) || ex.FailFirst > 0 || ex.RReset || ex.RShort > 0 || ex.ReqShort > 0 || ex.Expect100 {
		return
	}
	ex.BKill = true
	if rng.Bool(0.6) {
		ex.Hdr = append(ex.Hdr, [2]string{"Idempotency-Key", "k1"})
	}
}

func hcGenC03(rng *sim.Rand, tier string) interface{} {
	sc := &hcScenario{Prop: "C03", Compress: -1}
	sc.ByHost = rng.Bool(0.5)
	sc.ServerForm = rng.PickStr("", "", "", "ip4", "host", "ip6", "ip6noport", "hostnoport")
	sc.KeepHost = rng.Bool(0.4)
	sc.MemCache = rng.Bool(0.2)
	if !sc.MemCache && rng.Bool(0.25) {
		sc.Retry = rng.Pick(2, 3)
	}
	if rng.Bool(0.4) {
		sc.Compress = rng.Pick(0, 1, 100, 1000, 100000)
	}
	if rng.Bool(0.3) {
		sc.RespAdaptor = rng.PickStr("compress", "decompress", "body")
	}
	if rng.Bool(0.2) {
		sc.ReqAdaptor = rng.PickStr("compress", "decompress")
	}
	// limits well above the bodies generated here, or stream mode
	if rng.Bool(0.25) {
		sc.SrvMax = -1
	}
	if rng.Bool(0.25) {
		sc.ProxyMax = -1
	}
	if rng.Bool(0.15) {
		// servers discovered through the service registry (keepHost cannot be set on them)
		sc.Discovered, sc.KeepHost = true, false
		sc.ServerForm = rng.PickStr("ip4", "host")
	}
	if rng.Bool(0.2) {
		sc.Mirror = rng.PickStr("ok", "ok", "slow", "reset", "big", "down")
	}
	if rng.Bool(0.3) {
		sc.PoolTimeout = rng.PickStr("1h", "2h", "90m") // never fires here: the scripted backend answers at once and scheduler stalls add up to 20 min at most
	}
	hcGenNet(rng, sc)
	nc := rng.Range(1, 3)
	for c := 0; c < nc; c++ {
		var cl hcClient
		for e, n := 0, rng.Range(1, 4); e < n; e++ {
			ex := hcGenExchange(rng, "C03", sc)
			if sc.MemCache {
				// cache hits need repeated (method, path) keys with cacheable answers
				ex.Method = rng.PickStr("GET", "GET", "POST")
				ex.Path = rng.PickStr("/a", "/a/b")
				ex.Status = rng.Pick(200, 200, 201, 404)
				if ex.Method == "GET" {
					ex.BodyLen = 0
				}
				ex.RGzipBad = 0 // the cache oracle compares decoded bodies
			}
			if rng.Bool(0.1) && ex.RBodyLen > 100 && sc.Retry <= 1 && ex.Method != "HEAD" {
				// backend dies in the middle of the body (buffered and stream mode)
				ex.RReset = true
				ex.RChunked = false
			}
			if sc.Retry > 1 && rng.Bool(0.5) {
				ex.FailFirst = rng.Range(1, sc.Retry-1)
			}
			if sc.Mirror != "" && rng.Bool(0.7) {
				ex.Hdr = append(ex.Hdr, [2]string{"X-Mirror", "1"})
			}
			hcGenKill(rng, &ex)
			cl.Ex = append(cl.Ex, ex)
		}
		sc.Clients = append(sc.Clients, cl)
	}
	hcTameNet(sc)
	return sc
}

func hcGenC07(rng *sim.Rand, tier string) interface{} {
	sc := &hcScenario{Prop: "C07", Compress: -1}
	sc.ByHost = rng.Bool(0.3)
	lim := func() int64 { return int64(rng.Pick(0, 0, -1, 1, 10, 100, 1000, 4096)) }
	sc.SrvMax, sc.PathMax, sc.PoolMax, sc.ProxyMax = lim(), lim(), lim(), lim()
	hcGenNet(rng, sc)
	big := tier == "thorough" && rng.Bool(0.02)
	if big {
		// the 4 MiB default: whole-write segments only
		sc.SrvMax, sc.PathMax, sc.PoolMax, sc.ProxyMax = 0, 0, 0, 0
		sc.Seg = [4]int{}
	}
	if !big {
		sc.CacheSize = rng.Pick(0, 0, 1, 2, 50)
		sc.SplitPaths = rng.Bool(0.5)
		sc.HdrPath = sc.SplitPaths && rng.Bool(0.4)
		if rng.Bool(0.25) {
			sc.Compress = rng.Pick(0, 1, 100) // Proxy compression between the backend body and the client
		}
		if rng.Bool(0.15) {
			sc.Mirror = rng.PickStr("ok", "ok", "slow", "reset")
		}
		if rng.Bool(0.2) {
			sc.PoolTimeout = rng.PickStr("1h", "2h")
		}
		// pool memory cache: a cached answer is delivered without a backend call; it
		// is a delivered backend response like any other and must respect the limit
		// in force when it is delivered (also after a hot update of the limits)
		sc.MemCache = rng.Bool(0.15)
	}
	reqLimOf := func(l hcLimits, path string, small bool) int64 {
		if sc.SplitPaths && (path != "/up" || (sc.HdrPath && !small)) {
			return hcEffective(0, l.srv)
		}
		return hcEffective(l.path, l.srv)
	}
	first := hcLimits{sc.SrvMax, sc.PathMax, sc.PoolMax, sc.ProxyMax}
	if hcEffective(sc.PathMax, sc.SrvMax) < 0 && hcEffective(0, sc.SrvMax) < 0 && sc.Mirror == "" && rng.Bool(0.4) {
		sc.Retry = 2        // a streamed body must pass intact, i.e. never be re-sent by a retry
		sc.MemCache = false // (the retry rules count backend sightings)
	}
	around := func(lim int64) int {
		if lim < 0 {
			return rng.Pick(0, 1, 1000, 70000, 300000)
		}
		if lim == hcDefaultMax && !big {
			return rng.Pick(0, 1, 100, 5000)
		}
		v := int(lim) + rng.Pick(-1, 0, 0, 1, 1, 2, 100, 5000, -int(lim)/2)
		if v < 0 {
			v = 0
		}
		return v
	}
	// sizes of a later round also sit around the limits of the generation before:
	// a limit that survives a hot update shows there
	genClients := func(l hcLimits, prev *hcLimits, paths []string) []hcClient {
		var out []hcClient
		nc := rng.Range(1, 2)
		for c := 0; c < nc; c++ {
			var cl hcClient
			for e, n := 0, rng.Range(1, 4); e < n; e++ {
				ex := hcExchange{Method: rng.PickStr("POST", "PUT", "POST", "GET"), Path: paths[rng.Intn(len(paths))], Status: rng.Pick(200, 200, 201, 404, 500)}
				small := sc.HdrPath && rng.Bool(0.5)
				if small {
					ex.Hdr = append(ex.Hdr, [2]string{"X-Small", "1"})
				}
				if sc.Mirror != "" && rng.Bool(0.7) {
					ex.Hdr = append(ex.Hdr, [2]string{"X-Mirror", "1"})
				}
				ex.BodyLen = around(reqLimOf(l, ex.Path, small))
				if sc.HdrPath && rng.Bool(0.3) {
					// sizes around the limit of the entry this request does NOT belong to
					ex.BodyLen = around(reqLimOf(l, ex.Path, !small))
				}
				ex.RBodyLen = around(hcEffective(l.pool, l.proxy))
				if prev != nil && rng.Bool(0.5) {
					ex.BodyLen = around(reqLimOf(*prev, ex.Path, small))
				}
				if prev != nil && rng.Bool(0.5) {
					ex.RBodyLen = around(hcEffective(prev.pool, prev.proxy))
				}
				ex.Chunked = rng.Bool(0.5)
				ex.ChunkSz = rng.Pick(1, 7, 100, 4096, 0)
				if ex.BodyLen > 100000 {
					ex.ChunkSz = rng.Pick(4096, 65536, 0)
				}
				ex.Inc = rng.Bool(0.3)
				ex.RChunked = rng.Bool(0.4)
				ex.RInc = rng.Bool(0.3)
				ex.NewConn = rng.Bool(0.2)
				ex.AcceptEnc = rng.PickStr("", "identity")
				if sc.Compress >= 0 {
					// "identity"/"br": the client declines gzip although compression is configured
					ex.AcceptEnc = rng.PickStr("gzip", "gzip", "gzip, deflate", "", "identity", "br")
					if rng.Bool(0.15) {
						ex.RGzip = true // already compressed by the backend: the proxy must leave it alone
					}
				}
				ex.RLastCoalesced = rng.Bool(0.5)
				ex.RCloseDelim = !ex.RChunked && rng.Bool(0.08)
				if sc.Retry > 1 && rng.Bool(0.5) {
					ex.FailFirst = 1
				}
				if rng.Bool(0.12) && ex.RBodyLen > 2 {
					ex.RShort = rng.Pick(1, 2, ex.RBodyLen/2, ex.RBodyLen)
					if ex.RShort > ex.RBodyLen {
						ex.RShort = ex.RBodyLen
					}
					ex.RChunked = false
				}
				if ex.BodyLen > 0 && rng.Bool(0.12) {
					ex.Expect100 = true
				}
				if rng.Bool(0.08) && ex.BodyLen > 1 && ex.FailFirst == 0 && !ex.Expect100 {
					ex.ReqShort = rng.Pick(1, 2, ex.BodyLen/2, ex.BodyLen)
					if ex.Chunked {
						ex.ReqShort = rng.Pick(1, 5, 6, 7+ex.BodyLen/2) // 5 = exactly the terminator "0\r\n\r\n"
					}
					ex.NewConn = true
				}
				hcGenKill(rng, &ex)
				cl.Ex = append(cl.Ex, ex)
			}
			out = append(out, cl)
		}
		return out
	}
	paths := []string{"/up", "/a/b"}
	sc.Clients = genClients(first, nil, paths)
	if !big && sc.Retry <= 1 && rng.Bool(0.35) {
		// hot update of the limits between two rounds; the second round revisits the
		// paths of the first (a warm route cache must not keep the old limits)
		rl := &hcReload{SrvMax: sc.SrvMax, PathMax: sc.PathMax, PoolMax: sc.PoolMax, ProxyMax: sc.ProxyMax}
		for changed := false; !changed; {
			if rng.Bool(0.5) {
				rl.SrvMax, changed = lim(), true
			}
			if rng.Bool(0.5) {
				rl.PathMax, changed = lim(), true
			}
			if rng.Bool(0.4) {
				rl.PoolMax, changed = lim(), true
			}
			if rng.Bool(0.4) {
				rl.ProxyMax, changed = lim(), true
			}
		}
		second := hcLimits{rl.SrvMax, rl.PathMax, rl.PoolMax, rl.ProxyMax}
		rl.Clients = genClients(second, &first, paths)
		sc.Reload = rl
	}
	hcTameNet(sc)
	return sc
}

// ---- executor + oracles ---------------------------------------------------

func hcExec(r *sim.Run, sci interface{}) {
	sc := sci.(*hcScenario)
	if len(sc.Clients) == 0 {
		return
	}
	if !hcValid(sc) {
		return // a shrunk scenario outside the generator's range (e.g. an empty header name): not a counterexample
	}
	r.MultiClass = true
	c, err := hcNewChain(r, sc)
	if err != nil {
		proxy.HCRelease()
		r.Violate(sc.Prop+".setup", "%v", err)
		return
	}
	defer c.close()
	round := func(prefix string, clients []hcClient) {
		for ci := range clients {
			for ei := range clients[ci].Ex {
				c.script[fmt.Sprintf("%s%de%d", prefix, ci, ei)] = &clients[ci].Ex[ei]
			}
		}
		for ci := range clients {
			ci := ci
			r.Go(fmt.Sprintf("client%s%d", prefix, ci), func() {
				var conn *hcConn
				for ei := range clients[ci].Ex {
					if r.Aborted() {
						break
					}
					ex := &clients[ci].Ex[ei]
					id := fmt.Sprintf("%s%de%d", prefix, ci, ei)
					r.Sleep(time.Duration(ex.GapUs) * time.Microsecond)
					res := c.hcDo(&conn, ci, id, ex)
					r.Eventf("client %s: status=%d framing=%s complete=%v body=%d ioerr=%v frameerr=%q", id, res.status, res.framing, res.complete, len(res.body), res.ioErr, res.frameErr)
					if sc.Prop == "C03" {
						c.checkC03(id, ex, res)
					} else {
						c.checkC07(id, ex, res)
					}
				}
				if conn != nil {
					conn.c.Close()
				}
			})
		}
		r.WaitTasks()
	}
	round("c", sc.Clients)
	if sc.Reload != nil && !r.Aborted() {
		// quiescent point: every client of the first round has its answer
		r.Fault("hot_update_between_rounds")
		if err := c.hotUpdate(hcLimits{sc.Reload.SrvMax, sc.Reload.PathMax, sc.Reload.PoolMax, sc.Reload.ProxyMax}); err != nil {
			r.Violate(sc.Prop+".setup", "hot update: %v", err)
			return
		}
		round("d", sc.Reload.Clients)
	}
	n := 0
	for _, cl := range sc.Clients {
		n += len(cl.Ex)
	}
	if sc.Reload != nil {
		for _, cl := range sc.Reload.Clients {
			n += len(cl.Ex)
		}
	}
	if n >= 2 {
		r.Nontrivial()
	}
}

// cacheable: some other exchange with the same cache key (method, path) reached
// the backend and was answered with a cacheable status.
func (c *hcChain) cacheable(id string, ex *hcExchange) bool {
	for oid, o := range c.script {
		if oid == id || o.Method != ex.Method || o.Path != ex.Path || (o.Status != 200 && o.Status != 201) {
			continue
		}
		if os := c.seen[oid]; os != nil && os.count > 0 {
			return true
		}
	}
	return false
}

// hcValid keeps the minimiser inside the space the generators draw from.
func hcValid(sc *hcScenario) bool {
	if sc.MemCache {
		for _, cl := range sc.Clients {
			for _, ex := range cl.Ex {
				if ex.RGzipBad != 0 {
					return false
				}
			}
		}
	}
	rounds := [][]hcClient{sc.Clients}
	if sc.Reload != nil {
		rounds = append(rounds, sc.Reload.Clients)
	}
	for _, cls := range rounds {
		for _, cl := range cls {
			for _, ex := range cl.Ex {
				if ex.Method == "" || !strings.HasPrefix(ex.Path, "/") || ex.Status < 200 || ex.Status > 599 {
					return false
				}
				for _, kv := range ex.Hdr {
					if kv[0] == "" {
						return false
					}
				}
				for _, kv := range ex.RHdr {
					if kv[0] == "" {
						return false
					}
				}
				for _, t := range ex.ConnTokens {
					if t == "" {
						return false
					}
				}
				if ex.ReqGzip && sc.Prop != "C03" {
					return false
				}
				if ex.RGzipBad != 0 && (!ex.RGzip || ex.RBodyLen < 100 || ex.RGzipBad > 2 || ex.RGzipBad < 0) {
					return false
				}
				if ex.ReqShort < 0 || (ex.ReqShort > 0 && (ex.BodyLen <= 1 || sc.Prop != "C07")) {
					return false
				}
				if ex.Method == "HEAD" && (ex.RReset || ex.RShort > 0) {
					return false
				}
			}
		}
	}
	return true
}

func hcDecode(body []byte, hdr http.Header) ([]byte, error) {
	ce := strings.ToLower(strings.Join(hdr.Values("Content-Encoding"), ","))
	switch strings.TrimSpace(ce) {
	case "", "identity":
		return body, nil
	case "gzip":
		return hcGunzip(body)
	}
	return nil, fmt.Errorf("unexpected Content-Encoding %q", ce)
}

func hcShort(b []byte) string {
	if len(b) > 48 {
		return fmt.Sprintf("%q...(%d bytes)", b[:48], len(b))
	}
	return fmt.Sprintf("%q", b)
}

func (c *hcChain) describe(ex *hcExchange) string {
	sc := c.sc
	return fmt.Sprintf("[cfg retry=%d failFirst=%d server=%s memCache=%v byHost=%v keepHost=%v compress=%d respAdaptor=%q reqAdaptor=%q generation=%d cacheSize=%d splitPaths=%v hdrPath=%v mirror=%q discovered=%v poolTimeout=%q srvMax=%d pathMax=%d poolMax=%d proxyMax=%d] [req %s %s?%s body=%d chunked=%v ae=%q conn=%v hdr=%v] [backend status=%d body=%d chunked=%v gzip=%v short=%d reset=%v hdr=%v]",
		sc.Retry, ex.FailFirst, c.backAddr, sc.MemCache, sc.ByHost, sc.KeepHost, sc.Compress, sc.RespAdaptor, sc.ReqAdaptor, c.gen, sc.CacheSize, sc.SplitPaths, sc.HdrPath, sc.Mirror, sc.Discovered, sc.PoolTimeout, c.lim.srv, c.lim.path, c.lim.pool, c.lim.proxy,
		ex.Method, ex.Path, ex.Query, ex.BodyLen, ex.Chunked, ex.AcceptEnc, ex.ConnTokens, ex.Hdr,
		ex.Status, ex.RBodyLen, ex.RChunked, ex.RGzip, ex.RShort, ex.RReset, ex.RHdr)
}

// classification facts used in violation classes (kept coarse and stable)
func (c *hcChain) facts(ex *hcExchange) string {
	var f []string
	if c.sc.Compress >= 0 {
		f = append(f, "proxy-compression")
	}
	if c.sc.RespAdaptor != "" {
		f = append(f, "respadaptor-"+c.sc.RespAdaptor)
	}
	if c.sc.ReqAdaptor != "" {
		f = append(f, "reqadaptor-"+c.sc.ReqAdaptor)
	}
	if len(f) == 0 {
		return "plain"
	}
	return strings.Join(f, "+")
}

func (c *hcChain) checkC03(id string, ex *hcExchange, res *hcResp) {
	r := c.r
	desc := c.describe(ex)
	seen := c.seen[id]
	faulty := ex.RReset || ex.RShort > 0
	if ex.RGzip && ex.RGzipBad > 0 && ex.RBodyLen >= 100 {
		// The backend's body is labelled gzip but is not a valid gzip stream: there is
		// no content to compare bit-exactly. What remains of the statement is the
		// framing of whatever the client is sent, and that the request was forwarded.
		r.Probe("c03.backend_body_damaged_gzip")
		if res.frameErr != "" || res.garbage {
			r.Violate("C03.frame.malformed/"+c.facts(ex), "%s: response is not well-formed HTTP/1.1: %s (status %d)\n%s", id, res.frameErr, res.status, desc)
		} else if (res.ioErr != nil || !res.complete) && res.status != 0 && c.lim.proxy != -1 && c.lim.pool != -1 {
			r.Violate("C03.frame.short-body/"+c.facts(ex), "%s: damaged gzip body from the backend (buffered mode): response ended before its declared end: framing=%s declared Content-Length=%q got %d body bytes, err=%v (status %d)\n%s",
				id, res.framing, res.hdr.Get("Content-Length"), len(res.body), res.ioErr, res.status, desc)
		}
		return
	}
	// ---- framing of what the client was sent
	if res.frameErr != "" || res.garbage {
		r.Violate("C03.frame.malformed/"+c.facts(ex), "%s: response is not well-formed HTTP/1.1: %s (status %d)\n%s", id, res.frameErr, res.status, desc)
		return
	}
	if faulty && c.lim.proxy != -1 && c.lim.pool != -1 && (res.ioErr != nil || !res.complete) && res.status != 0 {
		// buffered mode: the proxy holds the whole backend body before it answers,
		// so whatever it answers must be well-framed
		r.Violate("C03.frame.short-body-after-backend-fault/"+c.facts(ex), "%s: backend died mid-body (buffered mode) and the client was sent status %d with declared Content-Length=%q but %d body bytes (err %v)\n%s",
			id, res.status, res.hdr.Get("Content-Length"), len(res.body), res.ioErr, desc)
		return
	}
	if faulty {
		r.Probe("c03.backend_fault_exchange")
		if res.status/100 == 2 && res.complete {
			want := hcBody("r"+id, ex.RBodyLen, ex.RInc)
			if c.sc.RespAdaptor == "body" {
				want = []byte("<replaced-by-adaptor>")
			}
			got, derr := hcDecode(res.body, res.hdr)
			// The statement does not quantify over backends that die: nothing is
			// asserted about the content here (only framing, above, and that
			// later exchanges are unaffected). Recorded as a probe.
			if derr == nil && !bytes.Equal(got, want) {
				r.Probe("c03.stream_mode_truncated_body_looks_complete")
			}
		}
		return
	}
	if res.ioErr != nil || !res.complete {
		r.Violate("C03.frame.short-body/"+c.facts(ex), "%s: response ended before its declared end: framing=%s declared Content-Length=%q got %d body bytes, err=%v (status %d)\n%s",
			id, res.framing, res.hdr.Get("Content-Length"), len(res.body), res.ioErr, res.status, desc)
		return
	}
	// ---- request side
	if kb, killed := c.killed[id]; killed {
		// the backend closed a reused connection under this request without answering
		r.Probe("c03.backend_closed_reused_connection_under_request")
		_ = kb
		if (seen == nil || seen.count == 0) && res.status/100 == 5 {
			r.Probe("c03.request_on_closed_connection_failed")
			return // not sent again: the call failed, nothing was forwarded
		}
		if seen != nil && seen.count > 0 {
			r.Probe("c03.request_on_closed_connection_sent_again")
		}
		// sent again (or answered otherwise): judged like any other exchange; what
		// reached the backend the second time must be the client's request
	}
	if (seen == nil || seen.count == 0) && c.sc.MemCache && (ex.Method == "GET" || ex.Method == "POST") {
		// served from the pool's memory cache: the response must be the one an
		// earlier exchange with the same cache key got from the backend
		ok := false
		got, derr := hcDecode(res.body, res.hdr)
		for oid, o := range c.script {
			if oid == id || o.Method != ex.Method || o.Path != ex.Path || o.RShort > 0 || o.RReset {
				continue
			}
			if os := c.seen[oid]; os == nil || os.count == 0 {
				continue
			}
			want := hcBody("r"+oid, o.RBodyLen, o.RInc)
			if c.sc.RespAdaptor == "body" {
				want = []byte("<replaced-by-adaptor>")
			}
			if derr == nil && res.status == o.Status && bytes.Equal(got, want) {
				ok = true
				for _, kv := range o.RHdr {
					found := false
					for _, v := range res.hdr.Values(kv[0]) {
						if v == kv[1] {
							found = true
						}
					}
					if !found {
						ok = false
					}
				}
				if ok {
					break
				}
			}
		}
		r.Probe("c03.served_from_memory_cache")
		if !ok {
			r.Violate("C03.cache.response-not-a-backend-response/"+c.facts(ex), "%s: not forwarded (memory cache) and the response (status %d, Content-Encoding %q, %s, decode err %v) is not what any earlier exchange with the same key got from the backend\n%s",
				id, res.status, res.hdr.Values("Content-Encoding"), hcShort(res.body), derr, desc)
		}
		return
	}
	if seen == nil || seen.count == 0 {
		r.Violate("C03.req.not-forwarded/"+c.facts(ex), "%s: backend never saw the request; client got %d\n%s", id, res.status, desc)
		return
	}
	// (an empty body can be sent again without loss: whether the gateway treats a
	// bodiless request as a stream, and so whether it retries it, is its own
	// business - both are accepted; the exact rule was a false alarm, DESIGN §16)
	if c.sc.Retry > 1 && ex.FailFirst > 0 && c.reqLimit(ex) < 0 && (ex.BodyLen > 0 || seen.count == 1) {
		// a streamed request body can be read only once: it must not be retried;
		// the client gets the failing attempt's answer
		r.Probe("c03.stream_request_failed_once_not_retried")
		if seen.count != 1 {
			r.Violate("C03.req.stream-body-resent", "%s: streamed request was sent to the backend %d times; attempt bodies: %d\n%s", id, seen.count, len(seen.attempts), desc)
			return
		}
		if !bytes.Equal(seen.body, hcBody("q"+id, ex.BodyLen, ex.Inc)) && c.sc.ReqAdaptor == "" && !ex.ReqGzip {
			r.Violate("C03.req.body/"+c.facts(ex), "%s: backend saw body %s want %s\n%s", id, hcShort(seen.body), hcShort(hcBody("q"+id, ex.BodyLen, ex.Inc)), desc)
		}
		if res.status != 502 {
			r.Violate("C03.resp.status/"+c.facts(ex), "%s: the only attempt was answered 502 by the backend, client got %d\n%s", id, res.status, desc)
		}
		return
	}
	if c.sc.Retry > 1 {
		if seen.count > c.sc.Retry {
			r.Violate("C03.req.duplicated", "%s: backend saw the request %d times with maxAttempts %d\n%s", id, seen.count, c.sc.Retry, desc)
		}
		if seen.count > 1 {
			r.Probe("c03.request_retried")
		}
		plainAll := hcBody("q"+id, ex.BodyLen, ex.Inc)
		for ai, ab := range seen.attempts {
			got := ab
			if c.sc.ReqAdaptor != "" || ex.ReqGzip {
				if d, err := hcDecode(ab, seen.hdr); err == nil {
					got = d
				}
			}
			if !bytes.Equal(got, plainAll) {
				r.Violate("C03.req.body-on-retry/"+c.facts(ex), "%s: attempt %d of %d reached the backend with body %s, want %s\n%s", id, ai+1, seen.count, hcShort(got), hcShort(plainAll), desc)
				break
			}
		}
	} else if seen.count > 1 {
		r.Violate("C03.req.duplicated", "%s: backend saw the request %d times\n%s", id, seen.count, desc)
	}
	if seen.method != ex.Method {
		r.Violate("C03.req.method", "%s: backend saw method %q want %q\n%s", id, seen.method, ex.Method, desc)
	}
	wantPath, _ := urlUnescapePath(ex.Path)
	if seen.path != wantPath {
		r.Violate("C03.req.path", "%s: backend saw path %q want %q\n%s", id, seen.path, wantPath, desc)
	}
	if seen.rawPath != ex.Path {
		r.Probe("c03.request_line_path_differs")
		// a differently spelled but equivalent path (same decoded path, and no
		// encoded reserved character turned into a delimiter or vice versa) is
		// tolerated: only a change of meaning is reported
		if hcPathMeaning(seen.rawPath) != hcPathMeaning(ex.Path) {
			r.Violate("C03.req.path-encoding", "%s: the client's request line carried path %q, the backend's %q (decoded: %q)\n%s", id, ex.Path, seen.rawPath, seen.path, desc)
		}
	}
	if seen.query != ex.Query {
		r.Violate("C03.req.query", "%s: backend saw raw query %q want %q\n%s", id, seen.query, ex.Query, desc)
	}
	plain := hcBody("q"+id, ex.BodyLen, ex.Inc)
	gotBody := seen.body
	if ex.ReqGzip && ex.BodyLen > 0 {
		r.Probe("c03.request_body_gzip_from_client")
		if c.sc.ReqAdaptor == "" {
			// nothing in the chain may touch the encoding: bit-exact bytes, label kept
			if wire := hcGzip(plain); seen.bodyErr == nil && !bytes.Equal(seen.body, wire) {
				r.Violate("C03.req.body/"+c.facts(ex), "%s: client sent a gzip body of %d bytes, backend saw %d other bytes (%s)\n%s", id, len(wire), len(seen.body), hcShort(seen.body), desc)
			}
			if seen.hdr.Get("Content-Encoding") != "gzip" {
				r.Violate("C03.req.header-lost", "%s: Content-Encoding of the request: backend saw %q want gzip\n%s", id, seen.hdr.Values("Content-Encoding"), desc)
			}
		}
	}
	if c.sc.ReqAdaptor != "" || ex.ReqGzip {
		// the adaptor may legitimately re-encode; compare decoded content
		if d, err := hcDecode(gotBody, seen.hdr); err == nil {
			gotBody = d
		} else {
			r.Violate("C03.req.body/"+c.facts(ex), "%s: backend cannot decode the request body it was sent: %v\n%s", id, err, desc)
		}
	}
	if seen.bodyErr != nil {
		r.Violate("C03.req.body/"+c.facts(ex), "%s: backend failed reading the request body: %v\n%s", id, seen.bodyErr, desc)
	} else if !bytes.Equal(gotBody, plain) {
		r.Violate("C03.req.body/"+c.facts(ex), "%s: backend saw body %s want %s\n%s", id, hcShort(gotBody), hcShort(plain), desc)
	}
	// headers: end-to-end preserved, hop-by-hop removed
	named := map[string]bool{}
	for _, t := range ex.ConnTokens {
		named[http.CanonicalHeaderKey(t)] = true
	}
	want := http.Header{}
	for _, kv := range ex.Hdr {
		k := http.CanonicalHeaderKey(kv[0])
		if hcHop[k] || named[k] {
			continue
		}
		want.Add(k, kv[1])
	}
	for k, vs := range want {
		got := seen.hdr.Values(k)
		if strings.Join(got, "\x00") != strings.Join(vs, "\x00") {
			r.Violate("C03.req.header-lost", "%s: end-to-end header %s: backend saw %q want %q\n%s", id, k, got, vs, desc)
		}
	}
	for k := range seen.hdr {
		if hcHop[k] || named[k] {
			r.Violate("C03.req.hop-header-forwarded", "%s: hop-by-hop header %s reached the backend with %q\n%s", id, k, seen.hdr.Values(k), desc)
		}
	}
	allowed := map[string]bool{"Accept-Encoding": true, "User-Agent": true, "Content-Length": true, "X-Verif-Id": true, "Content-Encoding": c.sc.ReqAdaptor != "" || ex.ReqGzip, "Expect": ex.Expect100}
	for k := range seen.hdr {
		if _, ok := want[k]; !ok && !allowed[k] && !hcHop[k] && !named[k] {
			r.Violate("C03.req.header-added", "%s: backend saw header %s=%q that the client did not send\n%s", id, k, seen.hdr.Values(k), desc)
		}
	}
	if ex.AcceptEnc != "" && strings.Join(seen.hdr.Values("Accept-Encoding"), ",") != ex.AcceptEnc {
		r.Violate("C03.req.header-lost", "%s: Accept-Encoding: backend saw %q want %q\n%s", id, seen.hdr.Values("Accept-Encoding"), ex.AcceptEnc, desc)
	}
	if c.sc.Discovered {
		r.Probe("c03.server_from_service_registry")
	}
	wantHost := "front.example:10080"
	if c.byName && !c.sc.KeepHost {
		wantHost = c.backAddr
	}
	if seen.host != wantHost {
		r.Violate("C03.req.host", "%s: backend saw Host %q want %q\n%s", id, seen.host, wantHost, desc)
	}
	c.checkMirror(id, ex, res)
	// ---- response side
	if res.status != ex.Status {
		r.Violate("C03.resp.status/"+c.facts(ex), "%s: client got status %d, backend sent %d\n%s", id, res.status, ex.Status, desc)
		return
	}
	for _, kv := range ex.RHdr {
		k := http.CanonicalHeaderKey(kv[0])
		var wantVals []string
		for _, kv2 := range ex.RHdr {
			if http.CanonicalHeaderKey(kv2[0]) == k {
				wantVals = append(wantVals, kv2[1])
			}
		}
		if got := res.hdr.Values(k); strings.Join(got, "\x00") != strings.Join(wantVals, "\x00") {
			r.Violate("C03.resp.header-lost", "%s: response header %s: client got %q, backend sent %q\n%s", id, k, got, wantVals, desc)
			break
		}
	}
	wantBody := hcBody("r"+id, ex.RBodyLen, ex.RInc)
	if c.sc.RespAdaptor == "body" {
		wantBody = []byte("<replaced-by-adaptor>")
	}
	if hcNoBody(ex.Method, ex.Status) {
		wantBody = nil
	}
	if hcNoBody(ex.Method, ex.Status) {
		if len(res.body) != 0 {
			r.Violate("C03.resp.body/"+c.facts(ex), "%s: status %d must not carry a body, client got %d bytes\n%s", id, ex.Status, len(res.body), desc)
		}
		// The answer to a HEAD request has no body, its Content-Length is an
		// end-to-end header like any other: the length the backend declared for the
		// resource must reach the client when nothing in the chain rewrites bodies.
		if ex.Method == "HEAD" && ex.Status/100 == 2 && ex.Status != 204 && !ex.RChunked && !ex.RCloseDelim && !ex.RGzip &&
			c.sc.Compress < 0 && c.sc.RespAdaptor == "" && !c.sc.MemCache {
			r.Probe("c03.head_response_content_length_compared")
			want := strconv.Itoa(ex.RBodyLen)
			if got := res.hdr.Get("Content-Length"); got != want {
				r.Violate("C03.resp.head-content-length", "%s: HEAD: the backend declared Content-Length %s, the client was sent %q\n%s", id, want, got, desc)
			}
		}
		return
	}
	got, derr := hcDecode(res.body, res.hdr)
	if derr != nil {
		r.Violate("C03.resp.undecodable/"+c.facts(ex), "%s: response labelled Content-Encoding=%q cannot be decoded: %v (%d bytes on the wire)\n%s", id, res.hdr.Values("Content-Encoding"), derr, len(res.body), desc)
		return
	}
	if !bytes.Equal(got, wantBody) {
		r.Violate("C03.resp.body/"+c.facts(ex), "%s: client body (after undoing %q) is %s, want %s\n%s", id, res.hdr.Values("Content-Encoding"), hcShort(got), hcShort(wantBody), desc)
	}
	if res.hdr.Get("Content-Encoding") != "" {
		r.Probe("c03.client_got_encoded_body")
	}
	if res.framing == "chunked" {
		r.Probe("c03.client_got_chunked")
	}
}

// checkMirror: the mirror pool gets a copy of the request; whatever its backend
// does must not show in the client's exchange (asserted by the ordinary checks,
// which run unchanged), nothing of its answer may reach the client, and what it
// was sent - if it got the request at all: the copy is abandoned when the main
// exchange ends first - is the client's request (buffered mode; a streamed body
// cannot be copied and is not compared).
func (c *hcChain) checkMirror(id string, ex *hcExchange, res *hcResp) {
	if c.sc.Mirror == "" {
		return
	}
	r := c.r
	wanted := false
	for _, kv := range ex.Hdr {
		if http.CanonicalHeaderKey(kv[0]) == "X-Mirror" && kv[1] == "1" {
			wanted = true
		}
	}
	if res.hdr.Get("X-From-Mirror") != "" || res.status == 418 || bytes.Contains(res.body, []byte("mirror backend")) {
		r.Violate("C03.mirror.answer-reached-client", "%s: the client was sent (part of) the mirror backend's answer: status %d\n%s", id, res.status, c.describe(ex))
	}
	ms := c.mseen[id]
	if ms == nil || ms.count == 0 {
		if wanted {
			r.Probe("c03.mirror_copy_not_delivered")
		}
		return
	}
	if !wanted {
		r.Violate("C03.mirror.unmatched-request-mirrored", "%s: the request does not match the mirror pool's filter but the mirror backend got it\n%s", id, c.describe(ex))
		return
	}
	r.Probe("c03.mirror_copy_delivered")
	if ms.count > 1 {
		// the Go transport itself re-sends an idempotent request when a reused
		// keep-alive connection dies before any answer byte (mirror mode "reset")
		r.Probe("c03.mirror_copy_resent_by_transport")
	}
	wantPath, _ := urlUnescapePath(ex.Path)
	if ms.method != ex.Method || ms.path != wantPath || ms.query != ex.Query {
		r.Violate("C03.mirror.request-line", "%s: mirror backend got %s %s?%s\n%s", id, ms.method, ms.path, ms.query, c.describe(ex))
	}
	if c.reqLimit(ex) >= 0 && ms.bodyErr == nil {
		got := ms.body
		if c.sc.ReqAdaptor != "" || ex.ReqGzip {
			if d, err := hcDecode(got, ms.hdr); err == nil {
				got = d
			}
		}
		if want := hcBody("q"+id, ex.BodyLen, ex.Inc); !bytes.Equal(got, want) {
			r.Violate("C03.mirror.body", "%s: mirror backend got body %s, want %s\n%s", id, hcShort(got), hcShort(want), c.describe(ex))
		}
	}
}

// hcPathMeaning normalises a raw path for comparison: unreserved characters are
// decoded, every other percent-escape is kept (upper-cased), so that "/a%2Fb"
// and "/a/b", or "/a%3Fb" and "/a?b", stay different while "/%7Ea" equals "/~a".
func hcPathMeaning(p string) string {
	var b strings.Builder
	for i := 0; i < len(p); i++ {
		if p[i] == '%' && i+2 < len(p)+0 && i+2 <= len(p)-1 {
			var v int
			if _, err := fmt.Sscanf(p[i+1:i+3], "%02x", &v); err == nil {
				c := byte(v)
				if c >= 'a' && c <= 'z' || c >= 'A' && c <= 'Z' || c >= '0' && c <= '9' || c == '-' || c == '.' || c == '_' || c == '~' {
					b.WriteByte(c)
				} else {
					fmt.Fprintf(&b, "%%%02X", c)
				}
				i += 2
				continue
			}
		}
		switch c := p[i]; {
		case c == ' ' || c >= 0x80 || c == '"' || c == '<' || c == '>' || c == '\\' || c == '^' || c == '`' || c == '{' || c == '|' || c == '}':
			fmt.Fprintf(&b, "%%%02X", c) // a raw byte that must be escaped on the wire means the same as its escape
		default:
			b.WriteByte(c)
		}
	}
	return b.String()
}

func urlUnescapePath(p string) (string, error) {
	// the backend handler reports URL.Path (decoded); decode the same way
	var b strings.Builder
	for i := 0; i < len(p); i++ {
		if p[i] == '%' && i+2 < len(p) {
			var v int
			if _, err := fmt.Sscanf(p[i+1:i+3], "%02x", &v); err == nil {
				b.WriteByte(byte(v))
				i += 2
				continue
			}
		}
		b.WriteByte(p[i])
	}
	return b.String(), nil
}

func (c *hcChain) checkC07(id string, ex *hcExchange, res *hcResp) {
	r := c.r
	desc := c.describe(ex)
	seen := c.seen[id]
	reqLim := c.reqLimit(ex)
	respLim := c.respLimit()
	if res.frameErr != "" || res.garbage {
		r.Violate("C07.malformed-response", "%s: %s\n%s", id, res.frameErr, desc)
		return
	}
	plain := hcBody("q"+id, ex.BodyLen, ex.Inc)
	if ex.ReqShort > 0 {
		// The client promised more body bytes than it sent and then ended its side.
		// Whatever the proxy does with such a request, the backend must never be
		// handed the fragment as if it were the complete body ("passes intact").
		r.Probe("c07.request_body_shorter_than_framed")
		if !ex.Chunked && reqLim >= 0 && int64(ex.BodyLen) > reqLim {
			r.Probe("c07.short_request_declared_over_limit")
			if res.status != 413 {
				r.Violate("C07.req.over-limit-not-413", "%s: declared request body %d > limit %d (client sent %d bytes fewer and half-closed) but client got status %d (ioerr %v)\n%s", id, ex.BodyLen, reqLim, ex.ReqShort, res.status, res.ioErr, desc)
			}
			if seen != nil && seen.count > 0 {
				r.Violate("C07.req.over-limit-forwarded", "%s: declared request body %d > limit %d but the backend saw the request\n%s", id, ex.BodyLen, reqLim, desc)
			}
			return
		}
		if seen != nil && seen.count > 0 && seen.bodyErr == nil && len(seen.body) < ex.BodyLen {
			r.Violate("C07.req.truncated-body-forwarded-as-complete", "%s: the client framed %d body bytes, sent %d fewer and half-closed; the backend read a cleanly ended body of %d bytes\n%s", id, ex.BodyLen, ex.ReqShort, len(seen.body), desc)
		}
		if seen != nil && seen.count > 0 {
			r.Probe("c07.short_request_reached_backend")
		}
		return
	}
	if c.gen > 0 {
		r.Probe("c07.exchange_after_hot_update")
		if c.sc.CacheSize > 0 {
			r.Probe("c07.exchange_after_hot_update_with_route_cache")
		}
	}
	// ---- request direction
	if ex.Expect100 {
		r.Probe("c07.request_with_expect_100_continue")
		if res.got100 {
			r.Probe("c07.request_with_expect_got_100")
		}
		if res.bodyHeld {
			r.Probe("c07.request_with_expect_answered_before_body")
		}
	}
	if reqLim >= 0 && int64(ex.BodyLen) > reqLim {
		r.Probe("c07.request_over_limit")
		if ex.Expect100 && !ex.Chunked && res.got100 {
			r.Probe("c07.over_limit_declared_body_was_asked_for_with_100_continue")
		}
		if res.status != 413 {
			r.Violate("C07.req.over-limit-not-413", "%s: request body %d > limit %d but client got status %d (ioerr %v)\n%s", id, ex.BodyLen, reqLim, res.status, res.ioErr, desc)
		}
		if seen != nil && seen.count > 0 {
			r.Violate("C07.req.over-limit-forwarded", "%s: request body %d > limit %d but the backend saw the request (%d body bytes)\n%s", id, ex.BodyLen, reqLim, len(seen.body), desc)
		} else if kb, killed := c.killed[id]; killed {
			r.Violate("C07.req.over-limit-forwarded", "%s: request body %d > limit %d but the backend saw the request (%d body bytes, on a connection it then closed)\n%s", id, ex.BodyLen, reqLim, len(kb), desc)
		}
		return
	}
	if kb, killed := c.killed[id]; killed {
		// the backend closed a reused connection under this request without answering:
		// the gateway either fails the call or sends the request again; what the
		// backend was handed - both times - must be the intact body
		r.Probe("c07.backend_closed_reused_connection_under_request")
		if !bytes.Equal(kb, plain) {
			r.Violate("C07.req.body-not-intact", "%s: backend saw body %s want %s (on the connection it then closed)\n%s", id, hcShort(kb), hcShort(plain), desc)
			return
		}
		if (seen == nil || seen.count == 0) && res.status/100 == 5 {
			r.Probe("c07.request_on_closed_connection_failed")
			return
		}
		if seen != nil && seen.count > 0 {
			r.Probe("c07.request_on_closed_connection_sent_again")
		}
	}
	if int64(ex.BodyLen) == reqLim {
		r.Probe("c07.request_exactly_at_limit")
	}
	if reqLim < 0 {
		r.Probe("c07.request_streamed")
	}
	if reqLim < 0 && c.sc.Retry > 1 && ex.FailFirst > 0 && (ex.BodyLen > 0 || seen == nil || seen.count == 1) {
		r.Probe("c07.streamed_request_failed_once")
		if seen == nil || seen.count != 1 {
			n := 0
			if seen != nil {
				n = seen.count
			}
			r.Violate("C07.req.stream-body-resent", "%s: streamed request reached the backend %d times (a streamed body can be sent once)\n%s", id, n, desc)
			return
		}
		if seen.bodyErr != nil || !bytes.Equal(seen.body, plain) {
			r.Violate("C07.req.body-not-intact", "%s: backend saw body %s (err %v) want %s\n%s", id, hcShort(seen.body), seen.bodyErr, hcShort(plain), desc)
		}
		return
	}
	if res.status == 413 {
		r.Violate("C07.req.within-limit-413", "%s: request body %d <= limit %d answered 413\n%s", id, ex.BodyLen, reqLim, desc)
		return
	}
	if (seen == nil || seen.count == 0) && c.sc.MemCache && (ex.Method == "GET" || ex.Method == "POST") && c.cacheable(id, ex) {
		// served from the pool's memory cache (C03 decides whose answer it may be)
		r.Probe("c07.served_from_memory_cache")
		if c.gen > 0 {
			r.Probe("c07.served_from_memory_cache_after_hot_update")
		}
		size := len(res.body)
		if d, err := hcDecode(res.body, res.hdr); err == nil && len(d) < size {
			size = len(d)
		}
		if respLim >= 0 && res.status/100 == 2 && int64(size) > respLim {
			r.Violate("C07.resp.over-limit-delivered", "%s: answered from the memory cache with a body of %d bytes > serverMaxBodySize %d in force (status %d)\n%s", id, size, respLim, res.status, desc)
		}
		return
	}
	if seen == nil || seen.count == 0 {
		r.Violate("C07.req.within-limit-not-forwarded", "%s: request body %d within limit %d but backend never saw it; client got %d\n%s", id, ex.BodyLen, reqLim, res.status, desc)
		return
	}
	if seen.bodyErr != nil || !bytes.Equal(seen.body, plain) {
		r.Violate("C07.req.body-not-intact", "%s: backend saw body %s (err %v) want %s\n%s", id, hcShort(seen.body), seen.bodyErr, hcShort(plain), desc)
		return
	}
	// ---- response direction
	want := hcBody("r"+id, ex.RBodyLen, ex.RInc)
	// A body the backend itself gzip-compressed has two sizes: on the wire and
	// decoded (the HTTP client library between proxy and backend may undo the
	// encoding). The statement does not say which one the limit measures: both
	// readings are accepted where they disagree.
	rsize := ex.RBodyLen
	if ex.RGzip {
		wsize := len(hcGzip(want))
		small, large := wsize, ex.RBodyLen
		if small > large {
			small, large = large, small
		}
		if respLim >= 0 && int64(small) <= respLim && int64(large) > respLim {
			r.Probe("c07.backend_gzip_body_over_limit_by_one_reading_only")
			if res.status/100 == 5 {
				return // withheld: the "larger" reading
			}
			rsize = small // delivered: must then be delivered intact (checked below)
		} else {
			rsize = large
		}
	}
	if ex.RShort > 0 {
		r.Probe("c07.backend_short_body")
		if respLim >= 0 && res.status/100 == 2 {
			// buffered mode: the proxy has the whole body before it answers, so a
			// short body must become an error status ("rather than a truncated success")
			r.Violate("C07.resp.short-body-success-status", "%s: backend declared %d bytes, sent %d and closed; client got status %d (%d body bytes, complete=%v, err %v) instead of an error status\n%s",
				id, ex.RBodyLen, ex.RBodyLen-ex.RShort, res.status, len(res.body), res.complete, res.ioErr, desc)
		} else if _, derr := hcDecode(res.body, res.hdr); res.status/100 == 2 && res.complete && res.ioErr == nil && derr == nil {
			// (a gzip stream that ends without its trailer does not decode: the
			// truncation is visible to the client, that is not a "success")
			r.Violate("C07.resp.truncated-success", "%s: backend declared %d bytes, sent %d and closed; client got a complete-looking %d with %d bytes\n%s",
				id, ex.RBodyLen, ex.RBodyLen-ex.RShort, res.status, len(res.body), desc)
		}
		return
	}
	if respLim >= 0 && int64(rsize) > respLim {
		r.Probe("c07.response_over_limit")
		if res.status/100 != 5 {
			r.Violate("C07.resp.over-limit-delivered", "%s: backend body %d > limit %d but client got status %d with %d bytes\n%s", id, rsize, respLim, res.status, len(res.body), desc)
		} else if len(res.body) > 0 && bytes.Contains(want, res.body[:minInt(len(res.body), 16)]) && len(res.body) >= 16 {
			r.Violate("C07.resp.over-limit-leaked", "%s: 5xx response carries bytes of the withheld body: %s\n%s", id, hcShort(res.body), desc)
		}
		return
	}
	if int64(rsize) == respLim {
		r.Probe("c07.response_exactly_at_limit")
	}
	if respLim < 0 {
		r.Probe("c07.response_streamed")
	}
	if res.ioErr != nil || !res.complete {
		r.Violate("C07.resp.within-limit-aborted", "%s: backend body %d within limit %d but the client's response is incomplete: status %d, %d bytes, err %v\n%s", id, rsize, respLim, res.status, len(res.body), res.ioErr, desc)
		return
	}
	if res.status != ex.Status {
		r.Violate("C07.resp.within-limit-status", "%s: backend body %d within limit %d but client got %d instead of %d\n%s", id, rsize, respLim, res.status, ex.Status, desc)
		return
	}
	got, derr := hcDecode(res.body, res.hdr)
	if derr != nil || !bytes.Equal(got, want) {
		r.Violate("C07.resp.body-not-intact", "%s: client body %s want %s (decode err %v)\n%s", id, hcShort(got), hcShort(want), derr, desc)
	}
}

func minInt(a, b int) int {
	if a < b {
		return a
	}
	return b
}

var hcReal = []string{"net/http.Server + pkg/object/httpserver mux (serveHTTP, search, FetchPayload)", "pkg/object/pipeline", "pkg/filters/proxy (Proxy, ServerPool, compression, its http.Transport)",
	"pkg/filters/requestadaptor, responseadaptor", "pkg/protocols/httpprot", "pkg/util/readers"}
var hcStub = []string{"network: simnet (segmentation, latency, reset)", "clients: raw HTTP/1.1 writer + strict response parser", "backend: scripted handler on a real net/http server (hijacks the socket to lie about lengths)"}

func TestVerifC03(t *testing.T) {
	hdrv.BeforeGC = proxy.HCRelease
	hdrv.Main(t, &hdrv.Harness{
		ID: "C03", Gen: hcGenC03, New: func() interface{} { return &hcScenario{} }, Exec: hcExec, MaxSteps: 400000,
		Rule: "scenario = chain configuration (IP/host-name server, keepHost, compression minLength, Request/ResponseAdaptor, buffered/stream limits, per-direction segmentation and latency) + 1-3 raw clients x 1-4 exchanges (method, path, query, header sets incl. hop-by-hop and Connection tokens, bodies declared/chunked, backend status/headers/body declared/chunked/gzip, backend reset mid-body, gzip-labelled bodies that are cut short or carry a wrong CRC) + optionally retry policy, pool memory cache, a mirror pool whose backend is healthy/slow/resetting/answering big/down, servers delivered by the service registry; methods include HEAD; " +
			"non-trivial = at least 2 exchanges completed; distinct = distinct schedule traces",
		Real: hcReal, Stub: hcStub,
		Assumptions: []string{"hop-by-hop removal is asserted on the request side only (the statement names it there)", "headers the Go transport/server may add are allow-listed: Accept-Encoding, User-Agent, Content-Length, Date, Content-Type sniffing",
			"CONNECT, Expect: 100-continue, trailers and 1xx responses are not generated; a backend that dies mid-body is not combined with HEAD (there is no body to die in)"},
	})
}

func TestVerifC07(t *testing.T) {
	hdrv.BeforeGC = proxy.HCRelease
	hdrv.Main(t, &hdrv.Harness{
		ID: "C07", Gen: hcGenC07, New: func() interface{} { return &hcScenario{} }, Exec: hcExec, MaxSteps: 400000,
		Rule: "scenario = clientMaxBodySize at server/path level and serverMaxBodySize at proxy/pool level drawn from {0,-1,1,10,100,1000,4096}, route cache sizes {0,1,2,50}, one or two path rules (path-level limit on /up only), optionally a hot update of all four limits between two rounds of exchanges (new Pipeline generation inherits, mux reloads; second round also sits around the old limits) + exchanges whose request and response body sizes sit on and around the effective limits (declared or chunked; backend declaring more than it sends), per-direction segmentation/latency; " +
			"non-trivial = at least 2 exchanges; distinct = distinct schedule traces",
		Real: hcReal, Stub: hcStub,
		Assumptions: []string{"a request body shorter than its own framing (declared length or chunk stream) is generated; longer than declared is not (the surplus is the next pipelined request by definition)", "the 4 MiB default limit is exercised only in the thorough tier (2% of runs)"},
	})
}
