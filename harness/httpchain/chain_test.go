//go:debug asynctimerchan=0
//go:build go1.21

package httpserver

// Shared HTTP chain for C03 (faithful proxying, framing) and C07 (body limits):
//
//   raw HTTP/1.1 clients --simnet--> real http.Server{Handler: real mux}
//      -> real Pipeline (optional RequestAdaptor, Proxy, optional ResponseAdaptor)
//      -> Proxy's own http.Client/http.Transport --simnet--> real http.Server (scripted backend)
//
// The client side speaks raw HTTP over the simulated TCP connection and parses
// responses with its own strict reader (not net/http), so framing errors are
// visible. Everything between the two sockets is production code.

import (
	"bufio"
	"bytes"
	"compress/gzip"
	stdcontext "context"
	"fmt"
	"io"
	"net"
	"net/http"
	"runtime/debug"
	"sort"
	"strconv"
	"strings"
	"time"

	"github.com/megaease/easegress/pkg/context"
	"github.com/megaease/easegress/pkg/filters/proxy"
	_ "github.com/megaease/easegress/pkg/filters/requestadaptor"
	_ "github.com/megaease/easegress/pkg/filters/responseadaptor"
	"github.com/megaease/easegress/pkg/logger"
	"github.com/megaease/easegress/pkg/object/pipeline"
	"github.com/megaease/easegress/pkg/protocols/httpprot/httpstat"
	"github.com/megaease/easegress/pkg/supervisor"
	"verif/simkit/sim"
	"verif/simkit/simnet"
)

func init() { logger.InitNop() }

type hcExchange struct {
	BKill      bool        `json:"bkill,omitempty"` // the backend closes the (kept-alive, already used) connection this request arrives on without answering, once
	Method     string      `json:"method"`
	Path       string      `json:"path"`
	Query      string      `json:"query"`
	Hdr        [][2]string `json:"hdr"`
	ConnTokens []string    `json:"conn_tokens"`
	ConnSplit  bool        `json:"conn_split"` // send each Connection token on its own field line
	BodyLen    int         `json:"body_len"`
	Chunked    bool        `json:"chunked"`
	ChunkSz    int         `json:"chunk_sz"`
	AcceptEnc  string      `json:"accept_enc"`
	NewConn    bool        `json:"new_conn"`
	GapUs      int         `json:"gap_us"`
	Inc        bool        `json:"incompressible"`
	// backend script
	Status         int         `json:"status"`
	RHdr           [][2]string `json:"rhdr"`
	RBodyLen       int         `json:"rbody_len"`
	RChunked       bool        `json:"rchunked"`
	RCloseDelim    bool        `json:"rclose_delim"`    // the backend answers without Content-Length or chunking and ends the body by closing the connection (HTTP/1.0 style)
	RLastCoalesced bool        `json:"rlast_coalesced"` // chunked backend body: the last data piece is sent together with the terminating chunk
	RGzip          bool        `json:"rgzip"`
	RGzipBad       int         `json:"rgzip_bad"` // with RGzip: 1 = gzip stream cut short, 2 = wrong CRC trailer (the declared length matches the bytes sent)
	RShort         int         `json:"rshort"`    // >0: declare RBodyLen, send RShort bytes fewer, then close
	RReset         bool        `json:"rreset"`    // reset the backend connection in the middle of the body
	RInc           bool        `json:"rincompressible"`
	Expect100      bool        `json:"expect_100"` // the client sends "Expect: 100-continue" and holds the body back until an interim 100 (or, like real clients, for 1 s)
	ReqGzip        bool        `json:"req_gzip"`   // C03: the client's body is gzip-compressed and labelled Content-Encoding: gzip
	ReqShort       int         `json:"req_short"`  // C07: the client sends this many bytes fewer than its framing promises (declared length, or the chunk stream incl. its terminator), then half-closes
	FailFirst      int         `json:"fail_first"` // the first n attempts are answered 502 (a failure code) by the backend
}

type hcClient struct {
	Ex []hcExchange `json:"ex"`
}

type hcScenario struct {
	Prop        string     `json:"prop"`
	ByHost      bool       `json:"by_host"`
	ServerForm  string     `json:"server_form"` // "", ip4, host, ip6, ip6noport, hostnoport ("" = ip4 or host per by_host)
	MemCache    bool       `json:"mem_cache"`   // pool-level memoryCache for GET/POST 200/201
	Retry       int        `json:"retry"`       // > 1: pool retryPolicy with that many attempts; status 502 is a failure code
	KeepHost    bool       `json:"keep_host"`
	Compress    int        `json:"compress"`     // -1: no compression section, else minLength
	RespAdaptor string     `json:"resp_adaptor"` // "", compress, decompress, body
	ReqAdaptor  string     `json:"req_adaptor"`  // "", compress, decompress
	SrvMax      int64      `json:"srv_max"`
	PathMax     int64      `json:"path_max"`
	PoolMax     int64      `json:"pool_max"`
	ProxyMax    int64      `json:"proxy_max"`
	Seg         [4]int     `json:"seg"`      // segment size per direction: c->f, f->c, p->b, b->p (0 = whole writes)
	DelayUs     [4]int     `json:"delay_us"` // per-segment latency per direction
	Clients     []hcClient `json:"clients"`
	// C07 only: route cache, two path rules (/up carries the path-level limit,
	// everything else falls back to the server level), and a hot update of all
	// four limits between two rounds of exchanges
	// C03 only: a mirror pool (requests carrying "X-Mirror: 1" are copied to a
	// second backend, which is healthy, slow, resetting, answering big or down)
	PoolTimeout string `json:"pool_timeout"` // pool `timeout` (a value that never fires for a healthy backend, e.g. "10m")
	Mirror      string `json:"mirror"`       // "", ok, slow, reset, big, down
	// C03 only: the pool's server list comes from the service registry (delivered
	// after the pool exists, as its registry watcher does); ip4 and host forms only
	Discovered bool      `json:"discovered"`
	CacheSize  int       `json:"cache_size"`
	SplitPaths bool      `json:"split_paths"`
	HdrPath    bool      `json:"hdr_path"` // with SplitPaths: the /up entry also requires the header "X-Small: 1" (requests without it fall through to the prefix entry)
	Reload     *hcReload `json:"reload"`
}

// hcReload is a hot update applied at a quiescent point (no request in flight):
// a new Pipeline generation inherits from the old one, the mux is reloaded, and
// the second round of exchanges is judged by the new limits.
type hcReload struct {
	SrvMax   int64      `json:"srv_max"`
	PathMax  int64      `json:"path_max"`
	PoolMax  int64      `json:"pool_max"`
	ProxyMax int64      `json:"proxy_max"`
	Clients  []hcClient `json:"clients"`
}

type hcLimits struct{ srv, path, pool, proxy int64 }

const hcDefaultMax = 4 * 1024 * 1024

var hcHop = map[string]bool{"Connection": true, "Keep-Alive": true, "Proxy-Connection": true, "Proxy-Authenticate": true,
	"Proxy-Authorization": true, "Te": true, "Trailer": true, "Transfer-Encoding": true, "Upgrade": true}

// hcBody is the deterministic content of a body: attributable to its exchange.
func hcBody(tag string, n int, inc bool) []byte {
	if n <= 0 {
		return nil
	}
	out := make([]byte, 0, n)
	if inc {
		var s uint64 = 1469598103934665603
		for i := 0; i < len(tag); i++ {
			s = (s ^ uint64(tag[i])) * 1099511628211
		}
		rg := sim.NewRand(s)
		for len(out) < n {
			v := rg.Uint64()
			for k := 0; k < 8 && len(out) < n; k++ {
				out = append(out, byte(v))
				v >>= 8
			}
		}
		return out
	}
	unit := []byte("<" + tag + ">")
	for len(out) < n {
		out = append(out, unit...)
	}
	return out[:n]
}

func hcGzip(b []byte) []byte {
	var buf bytes.Buffer
	zw := gzip.NewWriter(&buf)
	zw.Write(b)
	zw.Close()
	return buf.Bytes()
}

func hcGunzip(b []byte) ([]byte, error) {
	zr, err := gzip.NewReader(bytes.NewReader(b))
	if err != nil {
		return nil, err
	}
	return io.ReadAll(zr)
}

// ---- what the backend saw / what the client saw ------------------------

type hcSeen struct {
	attempts [][]byte // request body seen by each attempt
	count    int
	method   string
	path     string
	rawPath  string // the path as it stood on the request line (before any decoding)
	query    string
	host     string
	hdr      http.Header
	body     []byte
	bodyErr  error
	te       []string
}

type hcResp struct {
	got100    bool // an interim "100 Continue" preceded this response
	bodyHeld  bool // Expect: 100-continue and the final response arrived before any body byte was sent
	status    int
	hdr       http.Header
	body      []byte
	framing   string // "length", "chunked", "close", "none"
	complete  bool
	frameErr  string // framing violation visible on the wire
	ioErr     error
	garbage   bool
	connClose bool
}

type hcMapper struct{ m map[string]context.Handler }

func (m *hcMapper) GetHandler(name string) (context.Handler, bool) {
	h, ok := m.m[name]
	return h, ok
}

type hcChain struct {
	r        *sim.Run
	sc       *hcScenario
	net      *simnet.Net
	front    *http.Server
	backend  *http.Server
	pipe     *pipeline.Pipeline
	mux      *mux
	seen     map[string]*hcSeen
	killed   map[string][]byte // exchange id -> body the backend had read when it closed the connection (BKill)
	connUses map[string]int    // backend side: requests served per connection (remote address)
	script   map[string]*hcExchange
	backHost string
	backAddr string
	byName   bool
	panics   []string
	lim      hcLimits
	mapper   *hcMapper
	mirror   *http.Server
	mseen    map[string]*hcSeen
	gen      int
}

// reqLimit is the effective clientMaxBodySize for an exchange under the current generation.
func (c *hcChain) reqLimit(ex *hcExchange) int64 {
	if c.sc.SplitPaths && (ex.Path != "/up" || (c.sc.HdrPath && !hcHasHeader(ex, "X-Small", "1"))) {
		return hcEffective(0, c.lim.srv)
	}
	return hcEffective(c.lim.path, c.lim.srv)
}

func hcHasHeader(ex *hcExchange, k, v string) bool {
	for _, kv := range ex.Hdr {
		if http.CanonicalHeaderKey(kv[0]) == k && kv[1] == v {
			return true
		}
	}
	return false
}

// respLimit is the effective serverMaxBodySize under the current generation.
func (c *hcChain) respLimit() int64 { return hcEffective(c.lim.pool, c.lim.proxy) }

func hcStack() string {
	lines := strings.Split(string(debug.Stack()), "\n")
	var out []string
	for i := 0; i+1 < len(lines); i++ {
		if strings.Contains(lines[i], "megaease/easegress/pkg") && !strings.Contains(lines[i], "zz_verif") {
			out = append(out, strings.TrimSpace(lines[i])+" "+strings.TrimSpace(lines[i+1]))
		}
		if len(out) >= 8 {
			break
		}
	}
	return strings.Join(out, "\n")
}

func hcYAMLInt(name string, v int64) string {
	if v == 0 {
		return ""
	}
	return fmt.Sprintf("%s: %d\n", name, v)
}

func (c *hcChain) pipeYAML(lim hcLimits) string {
	sc := c.sc
	var flow, filters strings.Builder
	if sc.ReqAdaptor != "" {
		flow.WriteString("- filter: reqadaptor\n")
		fmt.Fprintf(&filters, "- name: reqadaptor\n  kind: RequestAdaptor\n  %s: gzip\n", sc.ReqAdaptor)
	}
	flow.WriteString("- filter: proxy\n")
	filters.WriteString("- name: proxy\n  kind: Proxy\n")
	if lim.proxy != 0 {
		fmt.Fprintf(&filters, "  serverMaxBodySize: %d\n", lim.proxy)
	}
	if sc.Compress >= 0 {
		fmt.Fprintf(&filters, "  compression:\n    minLength: %d\n", sc.Compress)
	}
	filters.WriteString("  pools:\n  - loadBalance:\n      policy: roundRobin\n")
	if lim.pool != 0 {
		fmt.Fprintf(&filters, "    serverMaxBodySize: %d\n", lim.pool)
	}
	if sc.MemCache {
		filters.WriteString("    memoryCache:\n      expiration: 10m\n      maxEntryBytes: 100000\n      codes: [200, 201]\n      methods: [GET, POST]\n")
	}
	if sc.Retry > 1 {
		filters.WriteString("    retryPolicy: retry\n    failureCodes: [502]\n")
	}
	if sc.PoolTimeout != "" {
		fmt.Fprintf(&filters, "    timeout: %s\n", sc.PoolTimeout)
	}
	if sc.Discovered {
		// the static entry is a dead placeholder; the live instance arrives by HCUseService
		filters.WriteString("    serverTags: [live]\n    servers:\n    - url: http://10.9.9.9:1\n      tags: [placeholder]\n")
	} else {
		fmt.Fprintf(&filters, "    servers:\n    - url: http://%s\n", c.backAddr)
		if sc.KeepHost {
			filters.WriteString("      keepHost: true\n")
		}
	}
	if sc.Mirror != "" {
		filters.WriteString("  mirrorPool:\n    filter:\n      headers:\n        X-Mirror:\n          exact: \"1\"\n    servers:\n    - url: http://10.9.0.2:9002\n")
	}
	switch sc.RespAdaptor {
	case "compress", "decompress":
		flow.WriteString("- filter: respadaptor\n")
		fmt.Fprintf(&filters, "- name: respadaptor\n  kind: ResponseAdaptor\n  %s: gzip\n", sc.RespAdaptor)
	case "body":
		flow.WriteString("- filter: respadaptor\n")
		filters.WriteString("- name: respadaptor\n  kind: ResponseAdaptor\n  body: \"<replaced-by-adaptor>\"\n")
	}
	pyaml := "name: pipe\nkind: Pipeline\nflow:\n" + flow.String() + "filters:\n" + filters.String()
	if sc.Retry > 1 {
		pyaml += fmt.Sprintf("resilience:\n- name: retry\n  kind: Retry\n  maxAttempts: %d\n  waitDuration: 10ms\n", sc.Retry)
	}
	return pyaml
}

func (c *hcChain) serverYAML(lim hcLimits) string {
	sc := c.sc
	syaml := "name: front\nkind: HTTPServer\nport: 10080\nkeepAlive: true\nhttps: false\n" +
		hcYAMLInt("clientMaxBodySize", lim.srv)
	if sc.CacheSize > 0 {
		syaml += fmt.Sprintf("cacheSize: %d\n", sc.CacheSize)
	}
	if sc.SplitPaths {
		hdr := ""
		if sc.HdrPath {
			hdr = "    headers:\n    - key: X-Small\n      values: [\"1\"]\n"
		}
		return syaml + "rules:\n- paths:\n  - path: /up\n    backend: pipe\n" + hdr + hcYAMLInt("    clientMaxBodySize", lim.path) +
			"  - pathPrefix: /\n    backend: pipe\n"
	}
	return syaml + "rules:\n- paths:\n  - pathPrefix: /\n    backend: pipe\n" + hcYAMLInt("    clientMaxBodySize", lim.path)
}

// hotUpdate installs new limits the way the supervisor does: a new Pipeline
// generation inherits from the running one, then the mux is reloaded.
func (c *hcChain) hotUpdate(lim hcLimits) error {
	pspec, err := supervisor.NewSpec(c.pipeYAML(lim))
	if err != nil {
		return fmt.Errorf("pipeline spec: %v", err)
	}
	sspec, err := supervisor.NewSpec(c.serverYAML(lim))
	if err != nil {
		return fmt.Errorf("server spec: %v", err)
	}
	np := &pipeline.Pipeline{}
	np.Inherit(pspec, c.pipe, c.mapper)
	c.pipe = np
	c.mapper.m["pipe"] = np
	c.mux.reload(sspec, c.mapper)
	c.lim = lim
	c.gen++
	return nil
}

func hcNewChain(r *sim.Run, sc *hcScenario) (*hcChain, error) {
	c := &hcChain{r: r, sc: sc, seen: map[string]*hcSeen{}, script: map[string]*hcExchange{}, killed: map[string][]byte{}, connUses: map[string]int{}}
	proxy.HCTrack()
	c.net = simnet.New()
	simnet.SetDefault(c.net)
	c.net.PlanFor = func(id int, addr string) (simnet.DirPlan, simnet.DirPlan) {
		mk := func(i int) simnet.DirPlan {
			p := simnet.DirPlan{}
			if sc.Seg[i] > 0 {
				p.SegSizes = []int{sc.Seg[i]}
			}
			if sc.DelayUs[i] > 0 {
				p.Delays = []time.Duration{time.Duration(sc.DelayUs[i]) * time.Microsecond}
			}
			return p
		}
		if strings.HasSuffix(addr, ":10080") {
			return mk(0), mk(1)
		}
		return mk(2), mk(3)
	}
	form := sc.ServerForm
	if form == "" {
		form = "ip4"
		if sc.ByHost {
			form = "host"
		}
	}
	c.byName = false
	switch form {
	case "host":
		c.backHost, c.backAddr, c.byName = "backend.internal", "backend.internal:9001", true
	case "hostnoport":
		c.backHost, c.backAddr, c.byName = "backend.internal", "backend.internal", true
	case "ip6":
		c.backHost, c.backAddr = "[fd00::9]", "[fd00::9]:9001"
	case "ip6noport":
		c.backHost, c.backAddr = "[fd00::9]", "[fd00::9]"
	default:
		c.backHost, c.backAddr = "10.9.0.1", "10.9.0.1:9001"
	}
	listenAddr := c.backAddr
	if !strings.Contains(strings.TrimPrefix(listenAddr, "["), "]:") && (strings.HasPrefix(listenAddr, "[") || !strings.Contains(listenAddr, ":")) {
		listenAddr += ":80" // URL without a port: the transport dials the default port
	}

	// backend
	bl, err := c.net.Listen("tcp", listenAddr)
	if err != nil {
		return nil, err
	}
	c.backend = &http.Server{Handler: http.HandlerFunc(c.backendHandler)}
	go c.backend.Serve(bl)

	if sc.Mirror != "" && sc.Mirror != "down" {
		ml, err := c.net.Listen("tcp", "10.9.0.2:9002")
		if err != nil {
			return nil, err
		}
		c.mseen = map[string]*hcSeen{}
		c.mirror = &http.Server{Handler: http.HandlerFunc(c.mirrorHandler)}
		go c.mirror.Serve(ml)
	}
	c.lim = hcLimits{sc.SrvMax, sc.PathMax, sc.PoolMax, sc.ProxyMax}
	pyaml := c.pipeYAML(c.lim)
	pspec, err := supervisor.NewSpec(pyaml)
	if err != nil {
		return nil, fmt.Errorf("pipeline spec: %v\n%s", err, pyaml)
	}
	mapper := &hcMapper{m: map[string]context.Handler{}}
	c.mapper = mapper
	c.pipe = &pipeline.Pipeline{}
	c.pipe.Init(pspec, mapper)
	mapper.m["pipe"] = c.pipe
	if sc.Discovered {
		host, port, _ := net.SplitHostPort(c.backAddr)
		pn, _ := strconv.Atoi(port)
		if proxy.HCUseService(host, uint16(pn)) == 0 {
			return nil, fmt.Errorf("no proxy to deliver service instances to")
		}
	}

	// front server: real mux under a real http.Server
	syaml := c.serverYAML(c.lim)
	sspec, err := supervisor.NewSpec(syaml)
	if err != nil {
		return nil, fmt.Errorf("server spec: %v\n%s", err, syaml)
	}
	c.mux = newMux(httpstat.New(), httpstat.NewTopN(10), mapper)
	c.mux.reload(sspec, mapper)
	fl, err := c.net.Listen("tcp", ":10080")
	if err != nil {
		return nil, err
	}
	c.front = &http.Server{Handler: http.HandlerFunc(func(w http.ResponseWriter, req *http.Request) {
		id := req.Header.Get("X-Verif-Id")
		r.Eventf("front start %s", id)
		defer func() {
			if p := recover(); p != nil {
				st := hcStack()
				r.Eventf("front PANIC %s: %v\n%s", id, p, st)
				c.panics = append(c.panics, fmt.Sprintf("%s: %v\n%s", id, p, st))
				panic(p)
			}
			r.Eventf("front done %s", id)
		}()
		c.mux.ServeHTTP(w, req)
	}), IdleTimeout: 60 * time.Second}
	go c.front.Serve(fl)
	return c, nil
}

func (c *hcChain) close() {
	proxy.HCRelease()
	c.front.Close()
	c.backend.Close()
	if c.mirror != nil {
		c.mirror.Close()
	}
	c.pipe.Close()
	c.net.Shutdown()
	simnet.SetDefault(nil)
}

func (c *hcChain) backendHandler(w http.ResponseWriter, req *http.Request) {
	id := req.Header.Get("X-Verif-Id")
	body, berr := io.ReadAll(req.Body)
	if kx := c.script[id]; kx != nil && kx.BKill {
		if _, done := c.killed[id]; !done && c.connUses[req.RemoteAddr] > 0 {
			// a kept-alive connection that has served a request before is closed without
			// an answer: the gateway's HTTP client may send the request again on a new
			// connection if it considers it replayable, or fail the call
			if hj, ok := w.(http.Hijacker); ok {
				if conn, _, err := hj.Hijack(); err == nil {
					c.killed[id] = body
					c.r.Fault("backend.closes_reused_connection_without_answer")
					c.r.Eventf("backend got %s body=%d on a reused connection and closes it without answering", id, len(body))
					conn.Close()
					return
				}
			}
		}
	}
	c.connUses[req.RemoteAddr]++
	s := c.seen[id]
	if s == nil {
		s = &hcSeen{}
		c.seen[id] = s
	}
	s.count++
	s.attempts = append(s.attempts, body)
	s.method, s.path, s.query, s.host = req.Method, req.URL.Path, req.URL.RawQuery, req.Host
	s.rawPath = req.RequestURI
	if i := strings.IndexByte(s.rawPath, '?'); i >= 0 {
		s.rawPath = s.rawPath[:i]
	}
	s.hdr = req.Header.Clone()
	s.body, s.bodyErr = body, berr
	s.te = req.TransferEncoding
	c.r.Eventf("backend got %s %s %s body=%d", id, req.Method, req.URL.Path, len(body))
	ex := c.script[id]
	if ex == nil {
		w.WriteHeader(599)
		return
	}
	if s.count <= ex.FailFirst {
		c.r.Fault("backend.failure_code_answer")
		w.Header().Set("Content-Length", "4")
		w.WriteHeader(502)
		w.Write([]byte("fail"))
		return
	}
	payload := hcBody("r"+id, ex.RBodyLen, ex.RInc)
	wire := payload
	if ex.RGzip {
		wire = hcGzip(payload)
		switch {
		case ex.RGzipBad == 1 && len(wire) > 24:
			c.r.Fault("backend.gzip_stream_cut")
			wire = wire[:len(wire)-len(wire)/3]
		case ex.RGzipBad == 2 && len(wire) > 24:
			c.r.Fault("backend.gzip_bad_crc")
			wire = append([]byte(nil), wire...)
			wire[len(wire)-6] ^= 0x5a
		}
	}
	if ex.RShort > 0 || ex.RReset {
		// lie about the length / die in the middle: write the raw response ourselves
		hj, ok := w.(http.Hijacker)
		if !ok {
			w.WriteHeader(598)
			return
		}
		conn, buf, err := hj.Hijack()
		if err != nil {
			return
		}
		var head strings.Builder
		fmt.Fprintf(&head, "HTTP/1.1 %d %s\r\n", ex.Status, http.StatusText(ex.Status))
		for _, kv := range ex.RHdr {
			fmt.Fprintf(&head, "%s: %s\r\n", kv[0], kv[1])
		}
		if ex.RGzip {
			head.WriteString("Content-Encoding: gzip\r\n")
		}
		fmt.Fprintf(&head, "Content-Length: %d\r\n\r\n", len(wire))
		send := len(wire) - ex.RShort
		if ex.RReset {
			send = len(wire) / 2
		}
		if send < 0 {
			send = 0
		}
		buf.WriteString(head.String())
		buf.Write(wire[:send])
		buf.Flush()
		if ex.RReset {
			c.r.Fault("backend.reset_mid_body")
			// let the bytes travel, then abort
			c.r.Sleep(time.Millisecond)
			if sc, ok := conn.(*simnet.Conn); ok {
				sc.Reset()
			}
		} else {
			c.r.Fault("backend.short_body")
		}
		conn.Close()
		return
	}
	if ex.RCloseDelim && !hcNoBody(req.Method, ex.Status) {
		if hj, ok := w.(http.Hijacker); ok {
			if conn, buf, err := hj.Hijack(); err == nil {
				var head strings.Builder
				fmt.Fprintf(&head, "HTTP/1.1 %d %s\r\nConnection: close\r\n", ex.Status, http.StatusText(ex.Status))
				for _, kv := range ex.RHdr {
					fmt.Fprintf(&head, "%s: %s\r\n", kv[0], kv[1])
				}
				if ex.RGzip {
					head.WriteString("Content-Encoding: gzip\r\n")
				}
				head.WriteString("\r\n")
				c.r.Fault("backend.close_delimited_body")
				buf.WriteString(head.String())
				buf.Write(wire)
				buf.Flush()
				conn.Close()
				return
			}
		}
	}
	h := w.Header()
	for _, kv := range ex.RHdr {
		h.Add(kv[0], kv[1])
	}
	if ex.RGzip {
		h.Set("Content-Encoding", "gzip")
	}
	if !ex.RChunked {
		h.Set("Content-Length", strconv.Itoa(len(wire)))
	}
	w.WriteHeader(ex.Status)
	if ex.RChunked {
		// flush in pieces so that the response is really chunked
		fl, _ := w.(http.Flusher)
		for off := 0; off < len(wire); {
			n := 1 + len(wire)/3
			if off+n > len(wire) {
				n = len(wire) - off
			}
			w.Write(wire[off : off+n])
			off += n
			// the last piece is not flushed on its own: it reaches the proxy in one
			// segment with the terminating chunk (data and end of body in one read)
			if fl != nil && (off < len(wire) || !ex.RLastCoalesced) {
				fl.Flush()
			}
		}
		return
	}
	w.Write(wire)
}

// mirrorHandler is the backend of the mirror pool: it records what it was sent
// and answers (or fails) in the way the scenario says; nothing it does may show
// in the exchange between the client and the main backend.
func (c *hcChain) mirrorHandler(w http.ResponseWriter, req *http.Request) {
	id := req.Header.Get("X-Verif-Id")
	body, berr := io.ReadAll(req.Body)
	s := c.mseen[id]
	if s == nil {
		s = &hcSeen{}
		c.mseen[id] = s
	}
	s.count++
	s.method, s.path, s.query, s.host = req.Method, req.URL.Path, req.URL.RawQuery, req.Host
	s.hdr = req.Header.Clone()
	s.body, s.bodyErr = body, berr
	c.r.Eventf("mirror got %s %s %s body=%d err=%v", id, req.Method, req.URL.Path, len(body), berr)
	switch c.sc.Mirror {
	case "slow":
		c.r.Fault("mirror.slow_answer")
		c.r.Sleep(5 * time.Second)
	case "reset":
		c.r.Fault("mirror.reset")
		if hj, ok := w.(http.Hijacker); ok {
			if conn, _, err := hj.Hijack(); err == nil {
				if sc, ok := conn.(*simnet.Conn); ok {
					sc.Reset()
				}
				conn.Close()
			}
		}
		return
	case "big":
		c.r.Fault("mirror.big_answer")
		w.WriteHeader(500)
		w.Write(hcBody("mirror"+id, 200000, true))
		return
	}
	w.Header().Set("X-From-Mirror", "1")
	w.WriteHeader(418)
	w.Write([]byte("answer of the mirror backend"))
}

// ---- raw client ---------------------------------------------------------

type hcConn struct {
	c  net.Conn
	br *bufio.Reader
}

func hcNoBody(method string, status int) bool {
	return method == "HEAD" || status/100 == 1 || status == 204 || status == 304
}

func hcReadLine(br *bufio.Reader) (string, error) {
	l, err := br.ReadString('\n')
	if err != nil {
		return l, err
	}
	if !strings.HasSuffix(l, "\r\n") {
		return l, fmt.Errorf("line not terminated by CRLF: %q", l)
	}
	return l[:len(l)-2], nil
}

// hcReadResponse is a strict HTTP/1.1 response reader.
func hcReadResponse(br *bufio.Reader, method string) *hcResp {
	res := &hcResp{hdr: http.Header{}}
	line, err := hcReadLine(br)
	if err != nil {
		res.ioErr = err
		if line != "" {
			res.garbage = true
		}
		return res
	}
	if !strings.HasPrefix(line, "HTTP/1.1 ") && !strings.HasPrefix(line, "HTTP/1.0 ") || len(line) < 12 {
		res.garbage = true
		res.frameErr = fmt.Sprintf("not a status line: %.60q", line)
		return res
	}
	st, err := strconv.Atoi(line[9:12])
	if err != nil {
		res.garbage = true
		res.frameErr = fmt.Sprintf("bad status line: %.60q", line)
		return res
	}
	res.status = st
	for {
		l, err := hcReadLine(br)
		if err != nil {
			res.ioErr = err
			return res
		}
		if l == "" {
			break
		}
		i := strings.IndexByte(l, ':')
		if i <= 0 {
			res.frameErr = fmt.Sprintf("bad header line %.60q", l)
			return res
		}
		res.hdr.Add(http.CanonicalHeaderKey(l[:i]), strings.TrimSpace(l[i+1:]))
	}
	for _, v := range res.hdr.Values("Connection") {
		if strings.Contains(strings.ToLower(v), "close") {
			res.connClose = true
		}
	}
	if hcNoBody(method, st) {
		res.framing, res.complete = "none", true
		return res
	}
	te := res.hdr.Values("Transfer-Encoding")
	cl := res.hdr.Values("Content-Length")
	chunked := false
	for _, v := range te {
		if strings.Contains(strings.ToLower(v), "chunked") {
			chunked = true
		}
	}
	if chunked && len(cl) > 0 {
		res.frameErr = "both Transfer-Encoding: chunked and Content-Length present"
	}
	if len(cl) > 1 {
		res.frameErr = "several Content-Length headers"
	}
	switch {
	case chunked:
		res.framing = "chunked"
		for {
			l, err := hcReadLine(br)
			if err != nil {
				res.ioErr = err
				return res
			}
			if i := strings.IndexByte(l, ';'); i >= 0 {
				l = l[:i]
			}
			n, err := strconv.ParseUint(strings.TrimSpace(l), 16, 32)
			if err != nil {
				res.frameErr = fmt.Sprintf("bad chunk size line %.40q", l)
				return res
			}
			if n == 0 {
				// trailers until empty line
				for {
					t, err := hcReadLine(br)
					if err != nil {
						res.ioErr = err
						return res
					}
					if t == "" {
						break
					}
				}
				res.complete = true
				return res
			}
			buf := make([]byte, n)
			if _, err := io.ReadFull(br, buf); err != nil {
				res.body = append(res.body, buf...)
				res.ioErr = err
				return res
			}
			res.body = append(res.body, buf...)
			crlf := make([]byte, 2)
			if _, err := io.ReadFull(br, crlf); err != nil {
				res.ioErr = err
				return res
			}
			if string(crlf) != "\r\n" {
				res.frameErr = "chunk data not followed by CRLF"
				return res
			}
		}
	case len(cl) > 0:
		res.framing = "length"
		n, err := strconv.ParseInt(strings.TrimSpace(cl[0]), 10, 64)
		if err != nil || n < 0 {
			res.frameErr = fmt.Sprintf("bad Content-Length %q", cl[0])
			return res
		}
		buf := make([]byte, n)
		m, err := io.ReadFull(br, buf)
		res.body = buf[:m]
		if err != nil {
			res.ioErr = err
			return res
		}
		res.complete = true
		return res
	default:
		res.framing = "close"
		b, err := io.ReadAll(br)
		res.body = b
		res.connClose = true
		if err != nil {
			res.ioErr = err
			return res
		}
		res.complete = true
		return res
	}
}

func hcEncodeRequest(id string, ex *hcExchange, hostHdr string) (head []byte, body []byte, plain []byte) {
	plain = hcBody("q"+id, ex.BodyLen, ex.Inc)
	wire := plain
	if ex.ReqGzip && len(plain) > 0 {
		wire = hcGzip(plain)
	}
	var b bytes.Buffer
	target := ex.Path
	if ex.Query != "" {
		target += "?" + ex.Query
	}
	fmt.Fprintf(&b, "%s %s HTTP/1.1\r\nHost: %s\r\nX-Verif-Id: %s\r\n", ex.Method, target, hostHdr, id)
	for _, kv := range ex.Hdr {
		fmt.Fprintf(&b, "%s: %s\r\n", kv[0], kv[1])
	}
	if len(ex.ConnTokens) > 0 && ex.ConnSplit {
		for _, t := range ex.ConnTokens {
			fmt.Fprintf(&b, "Connection: %s\r\n", t)
		}
	} else if len(ex.ConnTokens) > 0 {
		fmt.Fprintf(&b, "Connection: %s\r\n", strings.Join(ex.ConnTokens, ", "))
	}
	if ex.AcceptEnc != "" {
		fmt.Fprintf(&b, "Accept-Encoding: %s\r\n", ex.AcceptEnc)
	}
	if ex.Expect100 {
		b.WriteString("Expect: 100-continue\r\n")
	}
	if ex.ReqGzip && len(plain) > 0 {
		b.WriteString("Content-Encoding: gzip\r\n")
	}
	if ex.Chunked {
		b.WriteString("Transfer-Encoding: chunked\r\n\r\n")
		var cb bytes.Buffer
		sz := ex.ChunkSz
		if sz <= 0 {
			sz = 1 << 20
		}
		for off := 0; off < len(wire); off += sz {
			end := off + sz
			if end > len(wire) {
				end = len(wire)
			}
			fmt.Fprintf(&cb, "%x\r\n", end-off)
			cb.Write(wire[off:end])
			cb.WriteString("\r\n")
		}
		cb.WriteString("0\r\n\r\n")
		return b.Bytes(), cb.Bytes(), plain
	}
	if len(plain) > 0 || ex.Method == "POST" || ex.Method == "PUT" || ex.Method == "PATCH" {
		fmt.Fprintf(&b, "Content-Length: %d\r\n", len(wire))
	}
	b.WriteString("\r\n")
	return b.Bytes(), wire, plain
}

// hcDo performs one exchange on the client's connection (dialling if needed).
// Like any HTTP client it retries once on a fresh connection when a reused
// keep-alive connection turns out to be dead before a single response byte
// arrived (the server's idle time-out may have fired meanwhile).
func (c *hcChain) hcDo(cc **hcConn, ci int, id string, ex *hcExchange) *hcResp {
	for attempt := 0; ; attempt++ {
		fresh := false
		if *cc == nil || ex.NewConn {
			if *cc != nil {
				(*cc).c.Close()
			}
			conn, err := c.net.DialFrom(stdcontext.Background(), fmt.Sprintf("10.1.0.%d", 10+ci), "front.example:10080")
			if err != nil {
				return &hcResp{ioErr: err, hdr: http.Header{}}
			}
			*cc = &hcConn{c: conn, br: bufio.NewReader(conn)}
			fresh = true
		}
		conn := *cc
		head, body, _ := hcEncodeRequest(id, ex, "front.example:10080")
		done := make(chan struct{})
		cont := make(chan bool) // Expect: 100-continue: true = send the body now, false = final response came first (taken only while the writer waits)
		go func() {
			defer close(done)
			if _, err := conn.c.Write(head); err != nil {
				return
			}
			if ex.Expect100 && len(body) > 0 {
				t := time.NewTimer(time.Second)
				select {
				case ok := <-cont:
					t.Stop()
					if !ok {
						return
					}
				case <-t.C:
					c.r.Probe("client.expect_100_waited_in_vain_sends_body")
				}
				c.r.Yield("client.after_100")
			}
			if ex.ReqShort > 0 {
				cut := len(body) - ex.ReqShort
				if cut < 0 {
					cut = 0
				}
				c.r.Fault("client.request_body_shorter_than_framed")
				conn.c.Write(body[:cut])
				if hc, ok := conn.c.(interface{ CloseWrite() error }); ok {
					hc.CloseWrite()
				}
				return
			}
			conn.c.Write(body)
		}()
		// far beyond every time-out inside the system and beyond the total
		// time the scheduler may stall tasks: expiry means "no answer, ever"
		conn.c.SetReadDeadline(time.Now().Add(24 * time.Hour))
		res := hcReadResponse(conn.br, ex.Method)
		if ex.Expect100 && len(body) > 0 {
			if res.status == 100 && res.frameErr == "" && res.ioErr == nil {
				c.r.Probe("client.got_100_continue")
				select {
				case cont <- true:
				default:
				}
				res = hcReadResponse(conn.br, ex.Method)
				res.got100 = true
			} else {
				select {
				case cont <- false:
					res.bodyHeld = true
				default:
				}
			}
		}
		// the writer normally finished long ago; if the server answered without
		// reading the body it may be blocked on a full window: give up the connection
		finished := false
		select {
		case <-done:
			finished = true
		default:
		}
		if !finished || !res.complete || res.connClose || res.frameErr != "" || res.ioErr != nil || ex.ReqShort > 0 || res.bodyHeld {
			conn.c.Close()
			<-done
			*cc = nil
		}
		if !fresh && attempt == 0 && res.status == 0 && res.ioErr != nil && !res.garbage && (c.seen[id] == nil || c.seen[id].count == 0) {
			c.r.Probe("client.retry_on_dead_keepalive_conn")
			continue
		}
		return res
	}
}

// ---- expected effective limits ------------------------------------------

func hcEffective(specific, general int64) int64 {
	v := specific
	if v == 0 {
		v = general
	}
	if v == 0 {
		v = hcDefaultMax
	}
	return v
}

func hcSortedHeader(h http.Header) string {
	keys := make([]string, 0, len(h))
	for k := range h {
		keys = append(keys, k)
	}
	sort.Strings(keys)
	var b strings.Builder
	for _, k := range keys {
		fmt.Fprintf(&b, "%s=%q ", k, h[k])
	}
	return b.String()
}
