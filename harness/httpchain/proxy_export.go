package proxy

import (
	"runtime"

	"github.com/megaease/easegress/pkg/filters"
	"github.com/megaease/easegress/pkg/object/serviceregistry"
)

// Added by the verification harness (httpchain); not part of easegress.
//
// go-cache stops its janitor goroutine from a finalizer by a channel send; for a
// memory cache created inside a testing/synctest bubble that send would come
// from the GC goroutine, i.e. from outside the bubble, and crash the process.
// The harness therefore detaches those finalizers at the end of a run.

var hcTracked []*Proxy
var hcTracking bool

func init() {
	create := kind.CreateInstance
	kind.CreateInstance = func(spec filters.Spec) filters.Filter {
		f := create(spec)
		if hcTracking {
			if p, ok := f.(*Proxy); ok {
				hcTracked = append(hcTracked, p)
			}
		}
		return f
	}
}

// HCTrack starts remembering the Proxy instances created from now on.
func HCTrack() {
	// a run that was cut off (step limit) never reached HCRelease: its caches
	// must lose their finalizers before the next explicit GC between runs
	HCRelease()
	hcTracking, hcTracked = true, nil
}

// HCRelease detaches the memory-cache finalizers of the tracked instances.
func HCRelease() {
	for _, p := range hcTracked {
		pools := append([]*ServerPool{p.mainPool, p.mirrorPool}, p.candidatePools...)
		for _, sp := range pools {
			if sp != nil && sp.memoryCache != nil && sp.memoryCache.cache != nil {
				runtime.SetFinalizer(sp.memoryCache.cache, nil)
			}
		}
	}
	hcTracking, hcTracked = false, nil
}

// HCUseService delivers a service-registry instance list (one instance, tagged
// "live") to the main pool of every tracked Proxy, the way the pool's registry
// watcher does; it returns the number of pools updated.
func HCUseService(address string, port uint16) int {
	n := 0
	for _, p := range hcTracked {
		p.mainPool.useService(map[string]*serviceregistry.ServiceInstanceSpec{
			"i1": {RegistryName: "reg", ServiceName: "svc", InstanceID: "i1", Address: address, Port: port, Tags: []string{"live"}},
		})
		n++
	}
	return n
}
