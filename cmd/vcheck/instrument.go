package main

import (
	"fmt"
	"go/ast"
	"go/parser"
	"go/token"
	"sort"
	"strconv"
)

type instOpts struct {
	net       bool
	time      bool
	mapRanges bool
	mapSites  []rangeSite
	extra     map[string]string
}

var baseSwaps = map[string][2]string{
	"sync":        {"sync", "verif/simkit/simsync"},
	"sync/atomic": {"atomic", "verif/simkit/simatomic"},
	"math/rand":   {"rand", "verif/simkit/simrand"},
}

type edit struct {
	start, end int
	text       string
}

// instrument rewrites import lines in place (line numbers are preserved, so
// stack traces of instrumented code point at the repository's own lines).
func instrument(name string, src []byte, o instOpts) ([]byte, map[string]int, error) {
	fset := token.NewFileSet()
	f, err := parser.ParseFile(fset, name, src, parser.ParseComments)
	if err != nil {
		return nil, nil, err
	}
	stats := map[string]int{}
	var edits []edit
	for _, im := range f.Imports {
		path, _ := strconv.Unquote(im.Path.Value)
		var alias, repl string
		if s, ok := baseSwaps[path]; ok {
			alias, repl = s[0], s[1]
		} else if path == "net" && o.net {
			alias, repl = "net", "verif/simkit/simnet/netshim"
		} else if r, ok := o.extra[path]; ok {
			alias, repl = lastElem(path), r
		} else {
			continue
		}
		if im.Name != nil {
			alias = im.Name.Name
		}
		start := fset.Position(im.Pos()).Offset
		end := fset.Position(im.End()).Offset
		edits = append(edits, edit{start, end, fmt.Sprintf("%s %q", alias, repl)})
		stats["imports"]++
	}
	header := ""
	if o.mapRanges && len(o.mapSites) > 0 {
		for i, site := range o.mapSites {
			txt, err := rewriteMapRange(site, i)
			if err != nil {
				return nil, nil, err
			}
			edits = append(edits, edit{site.forPos, site.lbrace + 1, txt})
			stats["map_ranges"]++
		}
		// generic helpers need a newer language version for this file; a
		// //line directive keeps the original line numbers
		pend := fset.Position(f.Name.End()).Offset
		edits = append(edits, edit{pend, pend, `; import simsync "verif/simkit/simsync"`})
		header = "//go:build go1.21\n\n//line " + name + ":1\n"
	}
	// count constructs that stay nondeterministic, for the evidence file
	ast.Inspect(f, func(n ast.Node) bool {
		if s, ok := n.(*ast.SelectStmt); ok {
			cases := 0
			def := false
			for _, c := range s.Body.List {
				if cc, ok := c.(*ast.CommClause); ok {
					if cc.Comm == nil {
						def = true
					} else {
						cases++
					}
				}
			}
			if cases >= 2 && !def {
				stats["selects_multi_case"]++
			}
		}
		return true
	})
	if len(edits) == 0 {
		return src, stats, nil
	}
	for _, cg := range f.Comments {
		for _, c := range cg.List {
			if header != "" && len(c.Text) > 10 && c.Text[:10] == "//go:build" {
				return nil, nil, fmt.Errorf("file already has a //go:build line; map range rewriting needs manual care")
			}
		}
	}
	sort.Slice(edits, func(i, j int) bool { return edits[i].start > edits[j].start })
	out := append([]byte(nil), src...)
	for _, e := range edits {
		out = append(out[:e.start], append([]byte(e.text), out[e.end:]...)...)
	}
	if header != "" {
		out = append([]byte(header), out...)
	}
	return out, stats, nil
}

func lastElem(p string) string {
	for i := len(p) - 1; i >= 0; i-- {
		if p[i] == '/' {
			return p[i+1:]
		}
	}
	return p
}
