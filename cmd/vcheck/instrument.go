package main

import (
	"fmt"
	"go/ast"
	"go/parser"
	"go/token"
	"sort"
	"strconv"
)

type instOpts struct {
	net       bool
	time      bool
	mapRanges bool
	mapSites  []rangeSite
	selects   bool
	swap      bool // swap sync / atomic / rand imports (files listed under "instrument")
	goGates   bool
	stmtGates bool
	extra     map[string]string
}

var baseSwaps = map[string][2]string{
	"sync":        {"sync", "verif/simkit/simsync"},
	"sync/atomic": {"atomic", "verif/simkit/simatomic"},
	"math/rand":   {"rand", "verif/simkit/simrand"},
}

type edit struct {
	start, end int
	text       string
}

// instrument rewrites import lines in place (line numbers are preserved, so
// stack traces of instrumented code point at the repository's own lines).
func instrument(name string, src []byte, o instOpts) ([]byte, map[string]int, error) {
	fset := token.NewFileSet()
	f, err := parser.ParseFile(fset, name, src, parser.ParseComments)
	if err != nil {
		return nil, nil, err
	}
	stats := map[string]int{}
	var edits []edit
	for _, im := range f.Imports {
		path, _ := strconv.Unquote(im.Path.Value)
		var alias, repl string
		if s, ok := baseSwaps[path]; ok && o.swap {
			alias, repl = s[0], s[1]
		} else if path == "net" && o.net {
			alias, repl = "net", "verif/simkit/simnet/netshim"
		} else if path == "time" && o.time {
			alias, repl = "time", "verif/simkit/simtime"
		} else if r, ok := o.extra[path]; ok && o.swap {
			alias, repl = lastElem(path), r
		} else {
			continue
		}
		if im.Name != nil {
			alias = im.Name.Name
		}
		start := fset.Position(im.Pos()).Offset
		end := fset.Position(im.End()).Offset
		edits = append(edits, edit{start, end, fmt.Sprintf("%s %q", alias, repl)})
		stats["imports"]++
	}
	header := ""
	if o.mapRanges && len(o.mapSites) > 0 {
		for i, site := range o.mapSites {
			txt, err := rewriteMapRange(site, i)
			if err != nil {
				return nil, nil, err
			}
			edits = append(edits, edit{site.forPos, site.lbrace + 1, txt})
			stats["map_ranges"]++
		}
		// generic helpers need a newer language version for this file; a
		// //line directive keeps the original line numbers
		pend := fset.Position(f.Name.End()).Offset
		edits = append(edits, edit{pend, pend, `; import simsync "verif/simkit/simsync"`})
		header = "//go:build go1.21\n\n//line " + name + ":1\n"
	}
	if o.selects {
		se, nre, nskip := selectEdits(fset, f, src, name)
		edits = append(edits, se...)
		stats["selects_rewritten"] += nre
		stats["selects_left_random"] += nskip
		if nre > 0 && header == "" {
			pend := fset.Position(f.Name.End()).Offset
			edits = append(edits, edit{pend, pend, `; import verifsel "verif/simkit/simsync"`})
		} else if nre > 0 {
			pend := fset.Position(f.Name.End()).Offset
			edits = append(edits, edit{pend, pend, `; import verifsel "verif/simkit/simsync"`})
		}
	}
	if o.goGates {
		n := 0
		ast.Inspect(f, func(nd ast.Node) bool {
			g, ok := nd.(*ast.GoStmt)
			if !ok {
				return true
			}
			pos := fset.Position(g.Pos())
			site := fmt.Sprintf("go:%s:%d", lastElem(name), pos.Line)
			if fl, ok := g.Call.Fun.(*ast.FuncLit); ok {
				at := fset.Position(fl.Body.Lbrace).Offset + 1
				edits = append(edits, edit{at, at, fmt.Sprintf(" verifgo.GoGate(%q);", site)})
				n++
			} else if len(g.Call.Args) == 0 && isSimple(g.Call.Fun) {
				// `go x.run()` -> `go func() { gate; x.run() }()`
				cs, ce := fset.Position(g.Call.Pos()).Offset, fset.Position(g.Call.End()).Offset
				edits = append(edits, edit{cs, ce, fmt.Sprintf("func() { verifgo.GoGate(%q); %s }()", site, string(src[cs:ce]))})
				n++
			} else {
				stats["go_stmts_ungated"]++
			}
			return true
		})
		stats["go_gates"] += n
		if n > 0 {
			pend := fset.Position(f.Name.End()).Offset
			edits = append(edits, edit{pend, pend, `; import verifgo "verif/simkit/simsync"`})
		}
	}
	if o.stmtGates {
		n := 0
		var visitBlock func(list []ast.Stmt)
		visitBlock = func(list []ast.Stmt) {
			for i, st := range list {
				if i == 0 {
					continue
				}
				switch st.(type) {
				case *ast.LabeledStmt, *ast.DeclStmt, *ast.EmptyStmt, *ast.CaseClause, *ast.CommClause:
					continue
				}
				// never separate a statement from a preceding Lock() of a REAL mutex:
				// files under stmt_gates must also be under instrument (checked by vcheck)
				at := fset.Position(st.Pos()).Offset
				edits = append(edits, edit{at, at, "verifst.StmtGate(); "})
				n++
			}
		}
		ast.Inspect(f, func(nd ast.Node) bool {
			switch b := nd.(type) {
			case *ast.FuncDecl:
				if b.Name.Name == "init" {
					return false
				}
			case *ast.BlockStmt:
				visitBlock(b.List)
			case *ast.CaseClause:
				visitBlock(b.Body)
			case *ast.CommClause:
				visitBlock(b.Body)
			}
			return true
		})
		stats["stmt_gates"] += n
		if n > 0 {
			pend := fset.Position(f.Name.End()).Offset
			edits = append(edits, edit{pend, pend, `; import verifst "verif/simkit/simsync"`})
		}
	}
	// count constructs that stay nondeterministic, for the evidence file
	ast.Inspect(f, func(n ast.Node) bool {
		if s, ok := n.(*ast.SelectStmt); ok {
			cases := 0
			def := false
			for _, c := range s.Body.List {
				if cc, ok := c.(*ast.CommClause); ok {
					if cc.Comm == nil {
						def = true
					} else {
						cases++
					}
				}
			}
			if cases >= 2 && !def {
				stats["selects_multi_case"]++
			}
		}
		return true
	})
	if len(edits) == 0 {
		return src, stats, nil
	}
	for _, cg := range f.Comments {
		for _, c := range cg.List {
			if header != "" && len(c.Text) > 10 && c.Text[:10] == "//go:build" {
				return nil, nil, fmt.Errorf("file already has a //go:build line; map range rewriting needs manual care")
			}
		}
	}
	// apply from the end of the file backwards; at equal offsets a replacement
	// (end > start) is applied before a pure insertion, so that the inserted text
	// ends up in front of the replaced one
	sort.SliceStable(edits, func(i, j int) bool {
		if edits[i].start != edits[j].start {
			return edits[i].start > edits[j].start
		}
		return edits[i].end > edits[j].end
	})
	out := append([]byte(nil), src...)
	for _, e := range edits {
		out = append(out[:e.start], append([]byte(e.text), out[e.end:]...)...)
	}
	if header != "" {
		out = append([]byte(header), out...)
	}
	return out, stats, nil
}

func lastElem(p string) string {
	for i := len(p) - 1; i >= 0; i-- {
		if p[i] == '/' {
			return p[i+1:]
		}
	}
	return p
}


// selectEdits determinises `select` statements with >= 2 communication cases
// and no default: which of several cases that are ready on entry is taken is
// otherwise decided by the runtime's private random source. Before the
// original statement each case is polled alone (non-blocking), starting from
// a tape-chosen case and going round; the first ready one runs its (textually
// duplicated) body. If none is ready the original blocking select follows - a
// goroutine blocked there is committed to its first waker. No loop is
// introduced, so break/continue/return inside the bodies keep their meaning.
// Selects that carry a label, declare labels inside, or evaluate calls with
// possible side effects in their communication clauses are left alone.
func selectEdits(fset *token.FileSet, f *ast.File, src []byte, name string) ([]edit, int, int) {
	var edits []edit
	done, skipped := 0, 0
	labeled := map[ast.Stmt]bool{}
	ast.Inspect(f, func(n ast.Node) bool {
		if l, ok := n.(*ast.LabeledStmt); ok {
			labeled[l.Stmt] = true
		}
		return true
	})
	idx := 0
	ast.Inspect(f, func(n ast.Node) bool {
		sel, ok := n.(*ast.SelectStmt)
		if !ok {
			return true
		}
		var cases []*ast.CommClause
		hasDefault := false
		for _, c := range sel.Body.List {
			cc := c.(*ast.CommClause)
			if cc.Comm == nil {
				hasDefault = true
			} else {
				cases = append(cases, cc)
			}
		}
		if hasDefault || len(cases) < 2 {
			return true
		}
		ok = !labeled[sel]
		for _, cc := range cases {
			if !commIsPure(cc.Comm) {
				ok = false
			}
			for _, st := range cc.Body {
				ast.Inspect(st, func(m ast.Node) bool {
					if _, isL := m.(*ast.LabeledStmt); isL {
						ok = false
					}
					return true
				})
			}
		}
		if !ok || len(cases) > 6 {
			skipped++
			return true
		}
		idx++
		off := func(p token.Pos) int { return fset.Position(p).Offset }
		nc := len(cases)
		flag := fmt.Sprintf("verifSel%d", idx)
		start := fmt.Sprintf("verifSelK%d", idx)
		var b []byte
		b = append(b, fmt.Sprintf("%s, %s := false, verifsel.SelectStart(%d); _ = %s\n", flag, start, nc, start)...)
		for attempt := 0; attempt < nc; attempt++ {
			b = append(b, fmt.Sprintf("if !%s { switch (%s + %d) %% %d {\n", flag, start, attempt, nc)...)
			for ci, cc := range cases {
				comm := string(src[off(cc.Comm.Pos()):off(cc.Comm.End())])
				body := ""
				if len(cc.Body) > 0 {
					body = string(src[off(cc.Body[0].Pos()):off(cc.Body[len(cc.Body)-1].End())])
				}
				b = append(b, fmt.Sprintf("case %d:\nselect {\ncase %s:\n%s = true\n%s\ndefault:\n}\n", ci, comm, flag, body)...)
			}
			b = append(b, "}}\n"...)
		}
		line := fset.Position(sel.Pos()).Line
		// `if !flag {` + original select + `}`: the closing brace is appended after the statement
		b = append(b, fmt.Sprintf("if !%s {\n//line %s:%d\n", flag, name, line)...)
		edits = append(edits, edit{off(sel.Pos()), off(sel.Pos()), string(b)})
		edits = append(edits, edit{off(sel.End()), off(sel.End()), " }"})
		done++
		return true
	})
	return edits, done, skipped
}

// commIsPure tells whether evaluating the channel (and value) expressions of a
// communication clause several times is harmless.
func commIsPure(st ast.Stmt) bool {
	pure := true
	check := func(e ast.Expr, recvChan bool) {
		ast.Inspect(e, func(n ast.Node) bool {
			call, ok := n.(*ast.CallExpr)
			if !ok {
				return true
			}
			if recvChan {
				if se, ok := call.Fun.(*ast.SelectorExpr); ok {
					if len(call.Args) == 0 {
						return true // getter-like: ctx.Done(), w.Watch(), t.Chan()
					}
					if id, ok := se.X.(*ast.Ident); ok && id.Name == "time" && (se.Sel.Name == "After" || se.Sel.Name == "Tick") {
						return true
					}
				}
			}
			pure = false
			return false
		})
	}
	switch s := st.(type) {
	case *ast.SendStmt:
		check(s.Chan, true)
		check(s.Value, false)
	case *ast.ExprStmt:
		if u, ok := s.X.(*ast.UnaryExpr); ok {
			check(u.X, true)
		}
	case *ast.AssignStmt:
		for _, r := range s.Rhs {
			if u, ok := r.(*ast.UnaryExpr); ok {
				check(u.X, true)
			} else {
				pure = false
			}
		}
	}
	return pure
}
