package main

import (
	"go/ast"
	"go/token"
)

// mapRangeEdits is filled in by maprange_typed.go once needed.
var mapRangeEdits = func(fset *token.FileSet, f *ast.File, src []byte) ([]edit, int, error) {
	return nil, 0, nil
}
