package main

import (
	"fmt"
	"go/ast"
	"go/token"
	"go/types"
	"os"
	"os/exec"
	"path/filepath"
	"sort"
	"strings"

	"golang.org/x/tools/go/packages"
)

// mapRangeSites loads the packages containing the given files (typed, from
// /repo's working tree) and returns, per file, the source offsets of `for ...
// range <map>` statements: the position of the `for` keyword.
type rangeSite struct {
	forPos, lbrace int // byte offsets of `for` and of the body's `{`
	key, val       string
	define         bool
	expr           string
	simpleExpr     bool
}

func loadMapRanges(files []string, modfile string) (map[string][]rangeSite, error) {
	dirs := map[string]bool{}
	for _, f := range files {
		dirs[filepath.Dir(f)] = true
	}
	var pats []string
	for d := range dirs {
		rel, _ := filepath.Rel(repoDir, d)
		pats = append(pats, "./"+rel)
	}
	sort.Strings(pats)
	env := append(goEnv(), "GOFLAGS=-mod=mod -modfile="+modfile)
	if gp, err := goBinDir(); err == nil {
		env = append(env, "PATH="+gp+":"+os.Getenv("PATH"))
	}
	cfg := &packages.Config{
		Mode: packages.NeedName | packages.NeedFiles | packages.NeedCompiledGoFiles | packages.NeedSyntax | packages.NeedTypes | packages.NeedTypesInfo | packages.NeedImports,
		Dir:  repoDir, Env: env, Tests: false,
	}
	pkgs, err := packages.Load(cfg, pats...)
	if err != nil {
		return nil, err
	}
	want := map[string]bool{}
	for _, f := range files {
		want[f] = true
	}
	out := map[string][]rangeSite{}
	for _, p := range pkgs {
		if len(p.Errors) > 0 {
			return nil, fmt.Errorf("typed load of %s: %v", p.PkgPath, p.Errors[0])
		}
		for i, f := range p.Syntax {
			name := p.CompiledGoFiles[i]
			if !want[name] {
				continue
			}
			src, err := os.ReadFile(name)
			if err != nil {
				return nil, err
			}
			ast.Inspect(f, func(n ast.Node) bool {
				rs, ok := n.(*ast.RangeStmt)
				if !ok {
					return true
				}
				t := p.TypesInfo.TypeOf(rs.X)
				if t == nil {
					return true
				}
				if _, isMap := t.Underlying().(*types.Map); !isMap {
					return true
				}
				site := rangeSite{forPos: p.Fset.Position(rs.For).Offset, lbrace: p.Fset.Position(rs.Body.Lbrace).Offset, define: rs.Tok == token.DEFINE}
				if rs.Key != nil {
					site.key = string(src[p.Fset.Position(rs.Key.Pos()).Offset:p.Fset.Position(rs.Key.End()).Offset])
				}
				if rs.Value != nil {
					site.val = string(src[p.Fset.Position(rs.Value.Pos()).Offset:p.Fset.Position(rs.Value.End()).Offset])
				}
				site.expr = string(src[p.Fset.Position(rs.X.Pos()).Offset:p.Fset.Position(rs.X.End()).Offset])
				site.simpleExpr = isSimple(rs.X)
				out[name] = append(out[name], site)
				return true
			})
		}
	}
	return out, nil
}

func goBinDir() (string, error) {
	p, err := exec.LookPath(goBin)
	if err != nil {
		return "", err
	}
	// a directory containing a `go` that is go1.26.8
	root := filepath.Dir(filepath.Dir(p))
	if _, err := os.Stat(filepath.Join(root, "bin", "go")); err == nil {
		return filepath.Join(root, "bin"), nil
	}
	for _, cand := range []string{"/opt/veriftools/go1.26.8/bin"} {
		if _, err := os.Stat(filepath.Join(cand, "go")); err == nil {
			return cand, nil
		}
	}
	return "", fmt.Errorf("no go1.26.8 bin dir")
}

func isSimple(e ast.Expr) bool {
	switch x := e.(type) {
	case *ast.Ident:
		return true
	case *ast.SelectorExpr:
		return isSimple(x.X)
	case *ast.ParenExpr:
		return isSimple(x.X)
	case *ast.StarExpr:
		return isSimple(x.X)
	}
	return false
}

// rewriteMapRange builds the replacement text for `for ... {` (from the `for`
// keyword to and including the opening brace), all on one line.
func rewriteMapRange(s rangeSite, n int) (string, error) {
	if !s.define && (s.key != "" || s.val != "") {
		return "", fmt.Errorf("range over map with '=' assignment is not supported (expr %s)", s.expr)
	}
	k, v := s.key, s.val
	if k == "" && v == "" {
		return fmt.Sprintf("for range simsync.MapKeys(%s) {", s.expr), nil
	}
	kk := k
	if k == "" || k == "_" {
		kk = fmt.Sprintf("verifK%d", n)
	}
	if s.simpleExpr {
		var b strings.Builder
		fmt.Fprintf(&b, "for _, %s := range simsync.MapKeys(%s) {", kk, s.expr)
		if v != "" && v != "_" {
			fmt.Fprintf(&b, " %s, verifOk%d := %s[%s]; if !verifOk%d { continue };", v, n, s.expr, kk, n)
		} else {
			fmt.Fprintf(&b, " if _, verifOk%d := %s[%s]; !verifOk%d { continue };", n, s.expr, kk, n)
		}
		return b.String(), nil
	}
	// the map expression may have side effects: snapshot keys and values
	var b strings.Builder
	fmt.Fprintf(&b, "for _, verifKV%d := range simsync.MapPairs(%s) {", n, s.expr)
	if k != "" && k != "_" {
		fmt.Fprintf(&b, " %s := verifKV%d.K;", k, n)
	}
	if v != "" && v != "_" {
		fmt.Fprintf(&b, " %s := verifKV%d.V;", v, n)
	}
	return b.String(), nil
}
