// vcheck builds a property harness against /repo's current working tree
// (instrumented copies + overlay + modfile, nothing is written under /repo),
// runs seeded simulation batches in parallel worker processes, merges their
// summaries into /verif/evidence/<ID>.json and reports violations.
//
//	vcheck run <ID> [--tier quick|thorough]
//	vcheck replay <file>
//	vcheck determinism <ID> [--seeds n]
//	vcheck build <ID>
//
// Exit codes: 0 property held on everything explored (known findings are
// printed as KNOWN-FINDING lines); 1 violation (VIOLATION line); 2 build or
// infrastructure trouble (never a VIOLATION line).
package main

import (
	"bufio"
	"bytes"
	"encoding/json"
	"fmt"
	"os"
	"os/exec"
	"path/filepath"
	"sort"
	"strconv"
	"strings"
	"sync"
	"time"
)

var (
	verifDir = envOr("VERIF_DIR", "/verif")
	repoDir  = envOr("VERIF_REPO", "/repo")
	goBin    = envOr("VERIF_GO", "go1.26.8")
)

func envOr(k, d string) string {
	if v := os.Getenv(k); v != "" {
		return v
	}
	return d
}

// TierCfg bounds one tier of a check.
type TierCfg struct {
	BudgetS int `json:"budget_s"` // wall-clock budget of the run phase
	MaxRuns int `json:"max_runs"` // upper bound on runs
	Block   int `json:"block"`    // runs per worker process (recycling)
}

// CheckCfg is /verif/harness/<ID>/check.json.
type CheckCfg struct {
	ID         string            `json:"id"`
	Pkg        string            `json:"pkg"`        // package (relative to repo) the harness test is injected into
	Test       string            `json:"test"`       // test function name
	Instrument []string          `json:"instrument"` // globs (relative to repo) of source files to instrument
	MapRanges  []string          `json:"map_ranges"` // globs of files in which map ranges are determinised
	Files      map[string]string `json:"files"`      // harness file (relative to harness dir or /verif) -> path in repo
	BlankTests []string          `json:"blank_tests"`
	Replace    map[string]string `json:"replace"` // module -> directory (stubs)
	Require    []string          `json:"require"` // extra require lines
	Quick      TierCfg           `json:"quick"`
	Thorough   TierCfg           `json:"thorough"`
	Workers    int               `json:"workers"`
	RuntimeOv  bool              `json:"runtime_overlay"` // overlay the patched Go runtime files (simkit/goroot) and build with tag verifrt
	Also       []string          `json:"also"`   // further harness ids run as part of this check (their classes count for this property)
	Parent     string            `json:"parent"` // set in a sub-harness: the property id it reports for
	StmtGates  []string          `json:"stmt_gates"` // globs of files in which a gate is inserted between statements (must also be under instrument)
	GoGates    []string          `json:"go_gates"` // globs of files whose `go` statements get a gate at goroutine start
	Selects    []string          `json:"selects"` // globs of files whose multi-case selects are determinised
	NetShim    []string          `json:"netshim"` // globs of files whose "net" import is swapped
	TimeShim   []string          `json:"timeshim"`
	Extra      map[string]string `json:"extra_imports"` // import path -> replacement, applied to Instrument files
}

func fatal2(format string, a ...interface{}) {
	fmt.Fprintf(os.Stderr, "vcheck: "+format+"\n", a...)
	os.Exit(2)
}

func main() {
	if len(os.Args) < 3 {
		fatal2("usage: vcheck run|replay|determinism|build <ID|file> [--tier t]")
	}
	cmd, arg := os.Args[1], os.Args[2]
	tier := envOr("VERIF_TIER", "quick")
	seeds := 64
	for i := 3; i < len(os.Args); i++ {
		switch os.Args[i] {
		case "--tier":
			if i+1 < len(os.Args) {
				tier = os.Args[i+1]
				i++
			}
		case "--seeds":
			if i+1 < len(os.Args) {
				seeds, _ = strconv.Atoi(os.Args[i+1])
				i++
			}
		}
	}
	switch cmd {
	case "run":
		os.Exit(runCheck(arg, tier))
	case "build":
		cfg := loadCfg(arg)
		if _, err := build(cfg); err != nil {
			fatal2("%v", err)
		}
	case "replay":
		os.Exit(replay(arg))
	case "determinism":
		os.Exit(determinism(arg, seeds))
	default:
		fatal2("unknown command %q", cmd)
	}
}

func loadCfg(id string) *CheckCfg {
	b, err := os.ReadFile(filepath.Join(verifDir, "harness", id, "check.json"))
	if err != nil {
		fatal2("no harness for %s: %v", id, err)
	}
	var c CheckCfg
	if err := json.Unmarshal(b, &c); err != nil {
		fatal2("check.json of %s: %v", id, err)
	}
	if c.Workers == 0 {
		c.Workers = 16
	}
	return &c
}

func goEnv() []string {
	env := os.Environ()
	env = append(env, "GOFLAGS=-mod=mod", "GOPROXY=off", "GOSUMDB=off", "GOTOOLCHAIN=local", "GONOSUMDB=*", "GONOSUMCHECK=1")
	return env
}

type buildOut struct {
	bin     string
	dir     string
	pkgDir  string
	instrN  map[string]int
	buildS  float64
	replays string
}

func repoStatus() string {
	out, _ := exec.Command("git", "-C", repoDir, "status", "--porcelain").Output()
	return string(out)
}

func glob(rel string) []string {
	m, _ := filepath.Glob(filepath.Join(repoDir, rel))
	var out []string
	for _, f := range m {
		if strings.HasSuffix(f, "_test.go") {
			continue
		}
		out = append(out, f)
	}
	sort.Strings(out)
	return out
}

func build(cfg *CheckCfg) (*buildOut, error) {
	t0 := time.Now()
	before := repoStatus()
	bdir := filepath.Join(verifDir, "build", cfg.ID)
	if repoDir != "/repo" {
		// scratch trees (seeded changes, pre-fix commits) get their own build
		// directory: a run against /repo may be going on at the same time
		bdir = filepath.Join(verifDir, "build", cfg.ID+"-"+strings.Trim(strings.ReplaceAll(repoDir, "/", "_"), "_"))
	}
	os.RemoveAll(bdir)
	if err := os.MkdirAll(filepath.Join(bdir, "inst"), 0o755); err != nil {
		return nil, err
	}
	overlay := map[string]string{}
	stats := map[string]int{}

	// 0. modfile
	gm, err := os.ReadFile(filepath.Join(repoDir, "go.mod"))
	if err != nil {
		return nil, err
	}
	var mod bytes.Buffer
	mod.Write(gm)
	mod.WriteString("\nrequire verif/simkit v0.0.0\nreplace verif/simkit => " + filepath.Join(verifDir, "simkit") + "\n")
	for _, r := range cfg.Require {
		mod.WriteString("require " + r + "\n")
	}
	rk := make([]string, 0, len(cfg.Replace))
	for k := range cfg.Replace {
		rk = append(rk, k)
	}
	sort.Strings(rk)
	for _, k := range rk {
		d := cfg.Replace[k]
		if !filepath.IsAbs(d) {
			d = filepath.Join(verifDir, d)
		}
		mod.WriteString("replace " + k + " => " + d + "\n")
	}
	modPath := filepath.Join(bdir, "go.mod")
	os.WriteFile(modPath, mod.Bytes(), 0o644)
	gs, _ := os.ReadFile(filepath.Join(repoDir, "go.sum"))
	if ex, err := os.ReadFile(filepath.Join(verifDir, "simkit", "go.sum")); err == nil {
		gs = append(gs, ex...)
	}
	os.WriteFile(filepath.Join(bdir, "go.sum"), gs, 0o644)

	// 1. instrumented copies
	netshim := map[string]bool{}
	for _, g := range cfg.NetShim {
		for _, f := range glob(g) {
			netshim[f] = true
		}
	}
	timeshim := map[string]bool{}
	for _, g := range cfg.TimeShim {
		for _, f := range glob(g) {
			timeshim[f] = true
		}
	}
	swapr := map[string]bool{}
	for _, g := range cfg.Instrument {
		for _, f := range glob(g) {
			swapr[f] = true
		}
	}
	stmtr := map[string]bool{}
	for _, g := range cfg.StmtGates {
		for _, f := range glob(g) {
			stmtr[f] = true
		}
	}
	gor := map[string]bool{}
	for _, g := range cfg.GoGates {
		for _, f := range glob(g) {
			gor[f] = true
		}
	}
	selr := map[string]bool{}
	for _, g := range cfg.Selects {
		for _, f := range glob(g) {
			selr[f] = true
		}
	}
	mapr := map[string]bool{}
	for _, g := range cfg.MapRanges {
		for _, f := range glob(g) {
			mapr[f] = true
		}
	}
	seen := map[string]bool{}
	var files []string
	for _, g := range append(append(append(append([]string{}, cfg.Instrument...), cfg.NetShim...), cfg.MapRanges...), append(append(append([]string{}, cfg.Selects...), cfg.GoGates...), cfg.TimeShim...)...) {
		for _, f := range glob(g) {
			if !seen[f] {
				seen[f] = true
				files = append(files, f)
			}
		}
	}
	var sites map[string][]rangeSite
	if len(mapr) > 0 {
		var mf []string
		for f := range mapr {
			mf = append(mf, f)
		}
		sort.Strings(mf)
		var err error
		sites, err = loadMapRanges(mf, modPath)
		if err != nil {
			return nil, fmt.Errorf("map range analysis: %v", err)
		}
	}
	for _, f := range files {
		src, err := os.ReadFile(f)
		if err != nil {
			return nil, err
		}
		out, st, err := instrument(f, src, instOpts{net: netshim[f], time: timeshim[f], mapRanges: mapr[f], mapSites: sites[f], selects: selr[f], swap: swapr[f], goGates: gor[f], stmtGates: stmtr[f] && swapr[f], extra: cfg.Extra})
		if err != nil {
			return nil, fmt.Errorf("instrument %s: %v", f, err)
		}
		for k, v := range st {
			stats[k] += v
		}
		if bytes.Equal(out, src) {
			continue
		}
		rel, _ := filepath.Rel(repoDir, f)
		dst := filepath.Join(bdir, "inst", rel)
		os.MkdirAll(filepath.Dir(dst), 0o755)
		if err := os.WriteFile(dst, out, 0o644); err != nil {
			return nil, err
		}
		overlay[f] = dst
		stats["files"]++
	}

	// 2. harness files
	hdir := filepath.Join(verifDir, "harness", cfg.ID)
	for src, dst := range cfg.Files {
		s := src
		if !filepath.IsAbs(s) {
			if _, err := os.Stat(filepath.Join(hdir, s)); err == nil {
				s = filepath.Join(hdir, s)
			} else {
				s = filepath.Join(verifDir, s)
			}
		}
		if _, err := os.Stat(s); err != nil {
			return nil, fmt.Errorf("harness file %s: %v", src, err)
		}
		overlay[filepath.Join(repoDir, dst)] = s
	}

	// 2b. patched Go runtime (reproducible select order, map iteration, run queue)
	tags := ""
	if cfg.RuntimeOv {
		gr, err := exec.Command(goBin, "env", "GOROOT").Output()
		if err != nil {
			return nil, fmt.Errorf("go env GOROOT: %v", err)
		}
		groot := strings.TrimSpace(string(gr))
		for _, f := range []string{"select", "proc", "rand", "alg"} {
			overlay[filepath.Join(groot, "src", "runtime", f+".go")] = filepath.Join(verifDir, "simkit", "goroot", "runtime_"+f+".go.txt")
		}
		tags = "verifrt"
	}

	// 3. blank the existing tests of the harness package(s)
	blank := append([]string{cfg.Pkg}, cfg.BlankTests...)
	for _, p := range blank {
		m, _ := filepath.Glob(filepath.Join(repoDir, p, "*_test.go"))
		for _, f := range m {
			if _, ok := overlay[f]; ok {
				continue
			}
			src, err := os.ReadFile(f)
			if err != nil {
				continue
			}
			pkgName := packageClause(src)
			if pkgName == "" {
				continue
			}
			rel, _ := filepath.Rel(repoDir, f)
			dst := filepath.Join(bdir, "blank", rel)
			os.MkdirAll(filepath.Dir(dst), 0o755)
			os.WriteFile(dst, []byte("package "+pkgName+"\n"), 0o644)
			overlay[f] = dst
		}
	}
	ob, _ := json.MarshalIndent(map[string]interface{}{"Replace": overlay}, "", " ")
	ovPath := filepath.Join(bdir, "overlay.json")
	os.WriteFile(ovPath, ob, 0o644)

	// 5. compile the test binary
	bin := filepath.Join(bdir, "test.bin")
	args := []string{"test", "-c", "-vet=off", "-ldflags=-checklinkname=0", "-overlay", ovPath, "-modfile", modPath, "-o", bin}
	if tags != "" {
		args = append(args, "-tags", tags)
	}
	args = append(args, cfg.Pkg)
	c := exec.Command(goBin, args...)
	c.Dir = repoDir
	c.Env = goEnv()
	var outb bytes.Buffer
	c.Stdout, c.Stderr = &outb, &outb
	if err := c.Run(); err != nil {
		return nil, fmt.Errorf("build failed: %v\n%s", err, tail(outb.String(), 60))
	}
	if after := repoStatus(); after != before {
		return nil, fmt.Errorf("the build changed /repo's working tree:\nbefore:\n%s\nafter:\n%s", before, after)
	}
	return &buildOut{bin: bin, dir: bdir, pkgDir: filepath.Join(repoDir, cfg.Pkg), instrN: stats, buildS: time.Since(t0).Seconds(),
		replays: filepath.Join(verifDir, "replays")}, nil
}

func tail(s string, n int) string {
	lines := strings.Split(strings.TrimRight(s, "\n"), "\n")
	if len(lines) > n {
		lines = lines[len(lines)-n:]
	}
	return strings.Join(lines, "\n")
}

func packageClause(src []byte) string {
	sc := bufio.NewScanner(bytes.NewReader(src))
	for sc.Scan() {
		l := strings.TrimSpace(sc.Text())
		if strings.HasPrefix(l, "package ") {
			f := strings.Fields(l)
			if len(f) >= 2 {
				return f[1]
			}
		}
	}
	return ""
}

// Summary mirrors hdrv.Summary.
type Summary struct {
	Property   string            `json:"property"`
	Runs       int               `json:"runs"`
	FirstSeed  uint64            `json:"first_seed"`
	LastSeed   uint64            `json:"last_seed"`
	Outcomes   map[string]int    `json:"outcomes"`
	Steps      int64             `json:"steps_total"`
	Stalls     int64             `json:"stalls_total"`
	SimNs      int64             `json:"sim_ns_total"`
	Probes     map[string]int    `json:"probes"`
	Faults     map[string]int    `json:"faults"`
	Nontrivial int               `json:"nontrivial_runs"`
	Distinct   []uint64          `json:"distinct"`
	DistinctSc []uint64          `json:"distinct_schedules"`
	Samples    []json.RawMessage `json:"samples"`
	Violations []ViolationReport `json:"violations"`
	Errors     []string          `json:"errors"`
	Strategies map[string]int    `json:"strategies"`
	WallS      float64           `json:"wall_s"`
	Rule       string            `json:"rule"`
	Real       []string          `json:"real"`
	Stub       []string          `json:"stub"`
	Assume     []string          `json:"assumptions"`
	Hashes     map[string]string `json:"hashes"`
}

type ViolationReport struct {
	Class  string `json:"class"`
	Msg    string `json:"msg"`
	Seed   uint64 `json:"seed"`
	Replay string `json:"replay"`
	Count  int    `json:"count"`
}

type workerResult struct {
	sum    *Summary
	hung   []string
	err    string
	block  int
	stderr string
	crash  *ViolationReport
	cfg    *CheckCfg
	bo     *buildOut
}

// crashOf inspects the output of a worker that died. A panic (or fatal error)
// whose innermost non-runtime frame lies in easegress code - not in a harness
// file - is behaviour of the code under test: the process running the gateway
// would have died the same way. Anything else is an infrastructure problem.
func crashOf(out string) (msg string, production bool) {
	i := strings.Index(out, "panic: ")
	if j := strings.Index(out, "fatal error: "); j >= 0 && (i < 0 || j < i) {
		i = j
	}
	if i < 0 {
		return "", false
	}
	rest := out[i:]
	lines := strings.Split(rest, "\n")
	g := -1
	for k, l := range lines {
		if strings.HasPrefix(l, "goroutine ") && strings.Contains(l, "[running") {
			g = k
			break
		}
	}
	if g < 0 {
		return strings.Join(lines[:minI(len(lines), 6)], "\n"), false
	}
	var frames []string
	for k := g + 1; k < len(lines) && lines[k] != ""; k++ {
		if strings.HasPrefix(lines[k], "\t") {
			frames = append(frames, strings.TrimSpace(lines[k]))
		}
	}
	// the panic may be raised inside a harness callback (an injected fault) and
	// travel through easegress frames that were supposed to contain it: any
	// easegress frame on the dying goroutine's stack makes it the code's crash
	for _, f := range frames {
		if strings.Contains(f, "zz_verif") || strings.Contains(f, "/simkit/") || strings.Contains(f, verifDir+"/") {
			continue
		}
		if strings.Contains(f, "/pkg/") && !strings.Contains(f, "/pkg/mod/") {
			return strings.Join(lines[:minI(len(lines), 40)], "\n"), true
		}
	}
	return strings.Join(lines[:minI(len(lines), 40)], "\n"), false
}

func minI(a, b int) int {
	if a < b {
		return a
	}
	return b
}

func runWorker(bo *buildOut, cfg *CheckCfg, mode, tier string, seedBase uint64, runs int, budget time.Duration, block int, extraEnv ...string) workerResult {
	out := filepath.Join(bo.dir, fmt.Sprintf("sum-%s-%d.json", mode, block))
	os.Remove(out)
	os.Remove(out + ".hung")
	c := exec.Command(bo.bin, "-test.run", "^"+cfg.Test+"$", "-test.cpu", "1", "-test.count", "1", "-test.timeout", "0")
	c.Dir = bo.pkgDir
	env := os.Environ()
	env = append(env, "GOMAXPROCS=1", "GODEBUG=asyncpreemptoff=1", "VERIF_MODE="+mode, "VERIF_TIER="+tier,
		"VERIF_SEED_BASE="+strconv.FormatUint(seedBase, 10), "VERIF_WORKER=0", "VERIF_NWORKERS=1",
		"VERIF_RUNS="+strconv.Itoa(runs), "VERIF_BUDGET_MS="+strconv.FormatInt(budget.Milliseconds(), 10),
		"VERIF_OUT="+out, "VERIF_REPLAY_DIR="+bo.replays)
	env = append(env, extraEnv...)
	var kc []string
	for _, f := range loadFindings() {
		if f.Status == "known" {
			kc = append(kc, f.Class)
		}
	}
	env = append(env, "VERIF_KNOWN_CLASSES="+strings.Join(kc, ","))
	c.Env = env
	var eb bytes.Buffer
	c.Stdout, c.Stderr = &eb, &eb
	err := c.Run()
	if os.Getenv("VERIF_DEBUG_DET") != "" {
		fmt.Print(eb.String())
	}
	wr := workerResult{block: block, stderr: tail(eb.String(), 60)}
	if hb, e := os.ReadFile(out + ".hung"); e == nil {
		wr.hung = strings.Fields(string(hb))
	}
	if err != nil {
		if msg, prod := crashOf(eb.String()); prod && len(wr.hung) == 0 && mode == "run" {
			var seed uint64
			if cb, e := os.ReadFile(out + ".cur"); e == nil {
				seed, _ = strconv.ParseUint(strings.TrimSpace(string(cb)), 10, 64)
			}
			class := cfg.ID + ".process-crash"
			rp := filepath.Join(bo.replays, fmt.Sprintf("%s-%s-%d.json", cfg.ID, "process-crash", seed))
			rb, _ := json.MarshalIndent(map[string]interface{}{"crash": true, "property": cfg.ID, "class": class, "seed": seed, "msg": msg, "tier": tier}, "", " ")
			os.WriteFile(rp, rb, 0o644)
			wr.crash = &ViolationReport{Class: class, Msg: "the worker process was killed by a panic in a goroutine of the code under test:\n" + msg, Seed: seed, Replay: rp, Count: 1}
			wr.sum = &Summary{Outcomes: map[string]int{"process-crash": 1}, Runs: 1}
			return wr
		}
		wr.err = fmt.Sprintf("worker block %d: %v", block, err)
		return wr
	}
	b, e := os.ReadFile(out)
	if e != nil {
		wr.err = fmt.Sprintf("worker block %d wrote no summary: %v", block, e)
		return wr
	}
	var s Summary
	if e := json.Unmarshal(b, &s); e != nil {
		wr.err = fmt.Sprintf("worker block %d: bad summary: %v", block, e)
		return wr
	}
	os.Remove(out)
	wr.sum = &s
	return wr
}

type finding struct {
	Status   string `json:"status"` // known | fixed
	Property string `json:"property"`
	Class    string `json:"class"` // violation class (signature) this entry covers
	Commit   string `json:"commit,omitempty"`
	What     string `json:"what"`
}

// loadFindings reads /verif/known_findings.txt. Line formats:
//
//	known: property=<id> class=<violation class> <what fails>
//	fixed: property=<id> <commit> <what failed>
//
// Only "known" lines suppress anything (exactly their violation class).
func loadFindings() []finding {
	f, err := os.Open(filepath.Join(verifDir, "known_findings.txt"))
	if err != nil {
		return nil
	}
	defer f.Close()
	var out []finding
	sc := bufio.NewScanner(f)
	sc.Buffer(make([]byte, 1<<20), 1<<20)
	for sc.Scan() {
		l := strings.TrimSpace(sc.Text())
		if !strings.HasPrefix(l, "known:") {
			continue
		}
		fd := finding{Status: "known"}
		rest := strings.Fields(strings.TrimSpace(strings.TrimPrefix(l, "known:")))
		var what []string
		for _, w := range rest {
			switch {
			case strings.HasPrefix(w, "property=") && fd.Property == "":
				fd.Property = strings.TrimPrefix(w, "property=")
			case strings.HasPrefix(w, "class=") && fd.Class == "":
				fd.Class = strings.TrimPrefix(w, "class=")
			default:
				what = append(what, w)
			}
		}
		fd.What = strings.Join(what, " ")
		if fd.Property != "" && fd.Class != "" {
			out = append(out, fd)
		}
	}
	return out
}

func isKnown(fs []finding, id, class string) bool {
	for _, f := range fs {
		if f.Status == "known" && f.Property == id && f.Class == class {
			return true
		}
	}
	return false
}

// campaign runs seed blocks of one harness on cfg.Workers single-P worker
// processes until its budget or run count is used up.
func campaign(cfg *CheckCfg, bo *buildOut, tier string, seed uint64, tc TierCfg, findings []finding, id string, stop *bool, blocks *int) []workerResult {
	deadline := time.Now().Add(time.Duration(tc.BudgetS) * time.Second)
	var mu sync.Mutex
	nextBlock := 0
	var results []workerResult
	var wg sync.WaitGroup
	for w := 0; w < cfg.Workers; w++ {
		wg.Add(1)
		go func() {
			defer wg.Done()
			for {
				mu.Lock()
				b := nextBlock
				if *stop || b*tc.Block >= tc.MaxRuns || time.Now().After(deadline) {
					mu.Unlock()
					return
				}
				nextBlock++
				mu.Unlock()
				runs := tc.Block
				if (b+1)*tc.Block > tc.MaxRuns {
					runs = tc.MaxRuns - b*tc.Block
				}
				left := time.Until(deadline)
				if left < time.Second {
					left = time.Second
				}
				base := seed<<32 + uint64(b*tc.Block)
				wr := runWorker(bo, cfg, "run", tier, base, runs, left, b)
				if len(wr.hung) > 0 {
					// The wall-clock watchdog ended a run. Runs are deterministic in their
					// seed, so a real hang hangs again; a stall of the machine (all cores
					// oversubscribed by other work) does not. The block is run once more:
					// only a second stall is reported as infrastructure trouble (exit 2).
					first := strings.Join(wr.hung, ",")
					again := left
					if again < 3*time.Minute {
						again = 3 * time.Minute
					}
					wr2 := runWorker(bo, cfg, "run", tier, base, runs, again, b, "VERIF_WATCHDOG_S=180")
					if len(wr2.hung) == 0 && wr2.err == "" {
						fmt.Printf("NOTE: block %d of %s was stopped by the wall-clock watchdog (seed %s) and completed when run again: counted from the second run\n", b, cfg.ID, first)
						wr = wr2
					}
				}
				wr.cfg, wr.bo = cfg, bo
				mu.Lock()
				results = append(results, wr)
				if wr.err != "" {
					*stop = true
				}
				if wr.crash != nil && !isKnown(findings, id, wr.crash.Class) && tier != "thorough" {
					*stop = true
				}
				if wr.sum != nil && tier != "thorough" {
					for _, v := range wr.sum.Violations {
						if !isKnown(findings, id, v.Class) {
							*stop = true // a new violation: no need to spend the rest of the budget
						}
					}
				}
				mu.Unlock()
			}
		}()
	}
	wg.Wait()
	*blocks += nextBlock
	return results
}

func runCheck(id, tier string) int {
	t0 := time.Now()
	cfg := loadCfg(id)
	seed, _ := strconv.ParseUint(envOr("VERIF_SEED", "1"), 10, 64)
	tc := cfg.Quick
	if tier == "thorough" {
		tc = cfg.Thorough
	}
	if v := os.Getenv("VERIF_BUDGET_S"); v != "" {
		tc.BudgetS, _ = strconv.Atoi(v)
	}
	if tc.BudgetS == 0 {
		tc.BudgetS = 45
	}
	if tc.MaxRuns == 0 {
		tc.MaxRuns = 1 << 30
	}
	if tc.Block == 0 {
		tc.Block = 2000
	}
	findings := loadFindings()
	var results []workerResult
	var bo *buildOut
	nextBlock := 0
	totalBuildS := 0.0
	instr := map[string]int{}
	cfgs := []*CheckCfg{cfg}
	for _, a := range cfg.Also {
		cfgs = append(cfgs, loadCfg(a))
	}
	stop := false
	for ci, ccfg := range cfgs {
		ctc := tc
		if ci > 0 {
			ctc = ccfg.Quick
			if tier == "thorough" {
				ctc = ccfg.Thorough
			}
			if v := os.Getenv("VERIF_BUDGET_S"); v != "" {
				n, _ := strconv.Atoi(v)
				ctc.BudgetS = n / len(cfgs)
			}
			if ctc.BudgetS == 0 {
				ctc.BudgetS = 15
			}
			if ctc.MaxRuns == 0 {
				ctc.MaxRuns = 1 << 30
			}
			if ctc.Block == 0 {
				ctc.Block = 2000
			}
		} else if os.Getenv("VERIF_BUDGET_S") != "" && len(cfgs) > 1 {
			ctc.BudgetS = ctc.BudgetS / len(cfgs)
		}
		cbo, err := build(ccfg)
		if err != nil {
			fatal2("%s: %v", ccfg.ID, err)
		}
		os.MkdirAll(cbo.replays, 0o755)
		totalBuildS += cbo.buildS
		for k, v := range cbo.instrN {
			instr[k] += v
		}
		if ci == 0 {
			bo = cbo
		}
		if stop {
			break
		}
		results = append(results, campaign(ccfg, cbo, tier, seed, ctc, findings, id, &stop, &nextBlock)...)
	}
	bo = &buildOut{bin: bo.bin, dir: bo.dir, pkgDir: bo.pkgDir, instrN: instr, buildS: totalBuildS, replays: bo.replays}
	sort.SliceStable(results, func(i, j int) bool { return results[i].block < results[j].block })

	// merge
	tot := &Summary{Outcomes: map[string]int{}, Probes: map[string]int{}, Faults: map[string]int{}, Strategies: map[string]int{}}
	simSec := 0.0 // float: the total of a thorough campaign exceeds what int64 nanoseconds hold (292 years)
	distinct := map[uint64]struct{}{}
	distinctSc := map[uint64]struct{}{}
	var infra []string
	classes := map[string]*ViolationReport{}
	classFrom := map[string]workerResult{}
	var classOrder []string
	for _, wr := range results {
		for _, h := range wr.hung {
			infra = append(infra, "hung run, seed "+h)
		}
		if wr.err != "" {
			infra = append(infra, wr.err+"\n"+wr.stderr)
			continue
		}
		s := wr.sum
		tot.Runs += s.Runs
		tot.Steps += s.Steps
		tot.Stalls += s.Stalls
		tot.SimNs += s.SimNs
		simSec += float64(s.SimNs) / 1e9
		tot.Nontrivial += s.Nontrivial
		if wr.cfg == nil || wr.cfg.ID == id || tot.Rule == "" {
			tot.Rule, tot.Real, tot.Stub, tot.Assume = s.Rule, s.Real, s.Stub, s.Assume
		} else if !strings.Contains(tot.Rule, "["+wr.cfg.ID+"]") {
			tot.Rule += " || [" + wr.cfg.ID + "] " + s.Rule
			tot.Real = append(tot.Real, s.Real...)
			tot.Stub = append(tot.Stub, s.Stub...)
			tot.Assume = append(tot.Assume, s.Assume...)
		}
		for k, v := range s.Outcomes {
			tot.Outcomes[k] += v
		}
		for k, v := range s.Probes {
			tot.Probes[k] += v
		}
		for k, v := range s.Faults {
			tot.Faults[k] += v
		}
		for k, v := range s.Strategies {
			tot.Strategies[k] += v
		}
		for _, d := range s.Distinct {
			distinct[d] = struct{}{}
		}
		for _, d := range s.DistinctSc {
			distinctSc[d] = struct{}{}
		}
		if len(tot.Samples) < 3 {
			tot.Samples = append(tot.Samples, s.Samples...)
		}
		for _, e := range s.Errors {
			infra = append(infra, e)
		}
		vios := s.Violations
		if wr.crash != nil {
			vios = append(vios, *wr.crash)
		}
		for _, v := range vios {
			v := v
			if c, ok := classes[v.Class]; ok {
				c.Count += v.Count
				os.Remove(v.Replay)
				continue
			}
			classes[v.Class] = &v
			classFrom[v.Class] = wr
			classOrder = append(classOrder, v.Class)
		}
	}
	if len(tot.Samples) > 3 {
		tot.Samples = tot.Samples[:3]
	}

	// violations vs known findings
	exit := 0
	var knownSeen, newViol []string
	replayInfo := map[string]interface{}{}
	for _, cl := range classOrder {
		v := classes[cl]
		known := false
		for _, f := range findings {
			if f.Status == "known" && f.Property == id && f.Class == cl {
				known = true
				fmt.Printf("KNOWN-FINDING: property=%s %s (%s; seen %d times, e.g. seed %d, replay %s)\n", id, f.What, cl, v.Count, v.Seed, v.Replay)
				knownSeen = append(knownSeen, cl)
			}
		}
		if known {
			continue
		}
		// confirm by replaying in a fresh process
		rep := replayFile(classFrom[cl].bo, classFrom[cl].cfg, v.Replay)
		replayInfo[cl] = rep
		fmt.Printf("VIOLATION property=%s replay=%s\n", id, v.Replay)
		fmt.Printf("  class=%s seed=%d count=%d replay_reproduced=%v same_hash=%v\n  %s\n", cl, v.Seed, v.Count, rep["reproduced"], rep["same_hash"], firstLines(v.Msg, 12))
		newViol = append(newViol, cl)
		exit = 1
	}

	wall := time.Since(t0).Seconds()
	runWall := wall - bo.buildS
	if runWall <= 0 {
		runWall = 0.001
	}
	var unreached []string
	for k, v := range tot.Faults {
		if v == 0 {
			unreached = append(unreached, k)
		}
	}
	cov := map[string]interface{}{
		"evaluations":                 tot.Runs,
		"distinct_nontrivial":         len(distinct),
		"rule":                        tot.Rule,
		"samples":                     tot.Samples,
		"nontrivial_runs":             tot.Nontrivial,
		"distinct_schedule_traces":    len(distinctSc),
		"runs_per_hour":               int(float64(tot.Runs) / runWall * 3600),
		"seed_range":                  fmt.Sprintf("%d<<32 + [0,%d)", seed, nextBlock*tc.Block),
		"simulated_seconds_total":     simSec,
		"steps_total":                 tot.Steps,
		"stalls_total":                tot.Stalls,
		"faults_fired":                tot.Faults,
		"unreached":                   unreached,
		"probes":                      tot.Probes,
		"outcomes":                    tot.Outcomes,
		"schedule_strategies":         tot.Strategies,
		"instrumentation":             bo.instrN,
		"components":                  map[string]interface{}{"real": tot.Real, "stub": tot.Stub},
		"known_findings_seen":         knownSeen,
		"violation_classes":           newViol,
		"replay_confirmation":         replayInfo,
		"build_s":                     bo.buildS,
		"infrastructure_errors":       infra,
		"workers":                     cfg.Workers,
		"exhaustive":                  false,
		"explanation":                 "seeded search over scenarios, schedules and faults; each run is one synctest bubble executing the real easegress code",
		"traces_validated_against_impl": tot.Runs,
	}
	if tot.Assume == nil {
		tot.Assume = []string{}
	}
	if tot.Samples == nil {
		tot.Samples = []json.RawMessage{}
	}
	ev := map[string]interface{}{
		"property_id": id, "tier": tier, "seed": seed, "level": "exploration", "coverage": cov,
		"assumptions": tot.Assume, "wall_s": wall, "violations": len(newViol),
	}
	eb, _ := json.MarshalIndent(ev, "", " ")
	// evidence is only for runs against /repo itself; runs against a scratch copy
	// (VERIF_REPO, mutation experiments) must not overwrite it
	evDir := filepath.Join(verifDir, "evidence")
	if repoDir != "/repo" {
		evDir = filepath.Join(verifDir, "build", "evidence-scratch")
	}
	os.MkdirAll(evDir, 0o755)
	if err := os.WriteFile(filepath.Join(evDir, id+".json"), eb, 0o644); err != nil {
		fatal2("write evidence: %v", err)
	}
	fmt.Printf("%s %s: runs=%d nontrivial=%d distinct=%d steps=%d sim=%.0fs outcomes=%v wall=%.1fs (build %.1fs)\n",
		id, tier, tot.Runs, tot.Nontrivial, len(distinct), tot.Steps, simSec, tot.Outcomes, wall, bo.buildS)
	if exit == 1 {
		return 1
	}
	if len(infra) > 0 {
		for _, e := range infra {
			fmt.Fprintf(os.Stderr, "INFRA: %s\n", e)
		}
		return 2
	}
	if tot.Runs == 0 {
		fmt.Fprintln(os.Stderr, "INFRA: no runs executed")
		return 2
	}
	return 0
}

func firstLines(s string, n int) string {
	l := strings.Split(s, "\n")
	if len(l) > n {
		l = l[:n]
	}
	return strings.Join(l, "\n  ")
}

func replayFile(bo *buildOut, cfg *CheckCfg, path string) map[string]interface{} {
	out := filepath.Join(bo.dir, "replay-result.json")
	os.Remove(out)
	c := exec.Command(bo.bin, "-test.run", "^"+cfg.Test+"$", "-test.cpu", "1", "-test.count", "1", "-test.timeout", "0")
	c.Dir = bo.pkgDir
	c.Env = append(os.Environ(), "GOMAXPROCS=1", "GODEBUG=asyncpreemptoff=1", "VERIF_MODE=replay", "VERIF_REPLAY="+path, "VERIF_OUT="+out)
	var ob bytes.Buffer
	if os.Getenv("VERIF_REPLAY_LOG") != "" {
		c.Stdout, c.Stderr = os.Stdout, os.Stderr
	} else {
		c.Stdout, c.Stderr = &ob, &ob
	}
	runErr := c.Run()
	res := map[string]interface{}{}
	if b, err := os.ReadFile(out); err == nil {
		json.Unmarshal(b, &res)
	} else {
		res["error"] = "replay produced no result"
		var rf struct {
			Crash bool `json:"crash"`
		}
		if rb, e := os.ReadFile(path); e == nil && json.Unmarshal(rb, &rf) == nil && rf.Crash && runErr != nil {
			if msg, prod := crashOf(ob.String()); prod {
				res = map[string]interface{}{"reproduced": true, "same_hash": true, "crash": true, "msg": msg}
			}
		}
	}
	return res
}

func replay(path string) int {
	b, err := os.ReadFile(path)
	if err != nil {
		fatal2("%v", err)
	}
	var rf struct {
		Property string `json:"property"`
		Class    string `json:"class"`
	}
	if err := json.Unmarshal(b, &rf); err != nil || rf.Property == "" {
		fatal2("not a replay file: %s", path)
	}
	cfg := loadCfg(rf.Property)
	bo, err := build(cfg)
	if err != nil {
		fatal2("%v", err)
	}
	abs, _ := filepath.Abs(path)
	res := replayFile(bo, cfg, abs)
	jb, _ := json.MarshalIndent(res, "", " ")
	fmt.Println(string(jb))
	if res["reproduced"] == true {
		prop := rf.Property
		if cfg.Parent != "" {
			prop = cfg.Parent
		}
		fmt.Printf("VIOLATION property=%s replay=%s\n", prop, abs)
		return 1
	}
	fmt.Printf("replay of %s: violation class %s did not occur on this tree\n", abs, rf.Class)
	return 0
}

// determinism runs the same seeds in several fresh processes (each run is
// also executed twice in-process and once as a pure tape replay) and compares
// trace hashes.
func determinism(id string, seeds int) int {
	cfg := loadCfg(id)
	bo, err := build(cfg)
	if err != nil {
		fatal2("%v", err)
	}
	seed, _ := strconv.ParseUint(envOr("VERIF_SEED", "1"), 10, 64)
	type res struct {
		i int
		h map[string]string
		e string
	}
	const procs = 3
	ch := make(chan res, procs)
	for p := 0; p < procs; p++ {
		go func(p int) {
			wr := runWorker(bo, cfg, "determinism", "quick", seed<<32, seeds, 10*time.Minute, 1000+p)
			if wr.err != "" {
				ch <- res{p, nil, wr.err + "\n" + wr.stderr}
				return
			}
			ch <- res{p, wr.sum.Hashes, ""}
		}(p)
	}
	all := make([]map[string]string, procs)
	for p := 0; p < procs; p++ {
		r := <-ch
		if r.e != "" {
			fatal2("determinism worker: %s", r.e)
		}
		all[r.i] = r.h
	}
	mism := 0
	compared := 0
	for k, v := range all[0] {
		parts := strings.Split(v, "/")
		compared++
		bad := false
		if len(parts) >= 3 && (parts[0] != parts[1] || parts[0] != parts[2]) {
			bad = true
		}
		for p := 1; p < procs; p++ {
			if all[p][k] != v {
				bad = true
			}
		}
		if bad {
			mism++
			if mism <= 10 {
				fmt.Printf("MISMATCH seed=%s: %v | %v | %v\n", k, all[0][k], all[1][k], all[2][k])
			}
		}
	}
	fmt.Printf("determinism %s: seeds=%d processes=%d executions_per_seed=%d mismatches=%d\n", id, compared, procs, procs*3, mism)
	if mism > 0 {
		return 2
	}
	return 0
}
