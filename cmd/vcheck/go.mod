module verif/vcheck

go 1.23
