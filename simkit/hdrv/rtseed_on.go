//go:build go1.21 && verifrt

package hdrv

import (
	_ "unsafe"

	"verif/simkit/sim"
)

// rtSeed is runtime.simSelectSeed of the overlaid runtime/select.go (see
// simkit/goroot/README.md): while non-zero, goroutines inside a synctest bubble
// draw select poll orders and map iteration starts from a generator seeded with
// it, the scheduler skips its tick-dependent global-queue poll, and goroutines
// outside the bubble cannot displace the bubble's next goroutine.
//
//go:linkname rtSeed runtime.simSelectSeed
var rtSeed uint64

func init() { sim.RuntimeSeedHook = func(s uint64) { rtSeed = s } }
