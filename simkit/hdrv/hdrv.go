//go:build go1.21

// Package hdrv is the worker-side driver shared by all property harnesses. A
// harness is a generator of plain-data scenarios plus an executor that runs a
// scenario against the real easegress code inside a sim.Run. The driver runs
// seed ranges, aggregates coverage, minimises violations and writes replay
// files; it is controlled through VERIF_* environment variables by vcheck.
package hdrv

import (
	"bytes"
	"encoding/json"
	"fmt"
	"hash/fnv"
	"os"
	"path/filepath"
	"runtime"
	"runtime/debug"
	"sort"
	"strconv"
	"strings"
	"testing"
	"time"

	"verif/simkit/sim"
)

// Harness describes one property check.
type Harness struct {
	ID   string
	Gen  func(rng *sim.Rand, tier string) interface{} // returns a pointer to a JSON-marshalable scenario
	New  func() interface{}                           // returns a pointer to an empty scenario
	Exec func(r *sim.Run, sc interface{})             // the run's main task; reports through r
	// Shrink optionally proposes simpler variants of a scenario (besides the
	// generic deletion of array elements done by the driver).
	Shrink        func(sc interface{}) []interface{}
	MaxSteps      int
	DeadlockClass string // if set, a bubble deadlock is a violation of this class
	Rule          string // how cases are generated and what makes one non-trivial/distinct
	Real, Stub    []string
	Assumptions   []string
}

// ReplayFile is the on-disk form of a minimised failing execution.
type ReplayFile struct {
	// Crash marks a seed whose run killed the worker process (a panic in a
	// goroutine of the code under test): it is replayed by running that seed.
	Crash    bool            `json:"crash,omitempty"`
	Property string          `json:"property"`
	Class    string          `json:"class"`
	Msg      string          `json:"msg"`
	Seed     uint64          `json:"seed"`
	Scenario json.RawMessage `json:"scenario"`
	Tape     []uint32        `json:"tape"`
	Hash     string          `json:"hash"`
	Steps    int             `json:"steps"`
	SimNs    int64           `json:"sim_ns"`
	Log      []string        `json:"log"`
	Shrink   map[string]int  `json:"shrink_stats,omitempty"`
}

// ViolationReport is one violation class found by a worker.
type ViolationReport struct {
	Class  string `json:"class"`
	Msg    string `json:"msg"`
	Seed   uint64 `json:"seed"`
	Replay string `json:"replay"`
	Count  int    `json:"count"`
}

// Summary is what a worker writes at the end.
type Summary struct {
	Property   string            `json:"property"`
	Worker     int               `json:"worker"`
	Runs       int               `json:"runs"`
	FirstSeed  uint64            `json:"first_seed"`
	LastSeed   uint64            `json:"last_seed"`
	Outcomes   map[string]int    `json:"outcomes"`
	Steps      int64             `json:"steps_total"`
	Stalls     int64             `json:"stalls_total"`
	SimNs      int64             `json:"sim_ns_total"`
	Probes     map[string]int    `json:"probes"`
	Faults     map[string]int    `json:"faults"`
	Nontrivial int               `json:"nontrivial_runs"`
	Distinct   []uint64          `json:"distinct"`
	DistinctSc []uint64          `json:"distinct_schedules"`
	Samples    []json.RawMessage `json:"samples"`
	Violations []ViolationReport `json:"violations"`
	Errors     []string          `json:"errors"`
	Strategies map[string]int    `json:"strategies"`
	WallS      float64           `json:"wall_s"`
	Rule       string            `json:"rule"`
	Real       []string          `json:"real"`
	Stub       []string          `json:"stub"`
	Assume     []string          `json:"assumptions"`
	Hashes     map[string]string `json:"hashes,omitempty"` // determinism mode: seed -> trace hash
}

var gcEvery = int(envInt("VERIF_GC_EVERY", 50))

func envInt(name string, def int64) int64 {
	if v := os.Getenv(name); v != "" {
		if n, err := strconv.ParseInt(v, 10, 64); err == nil {
			return n
		}
	}
	return def
}

func h64(s string) uint64 {
	h := fnv.New64a()
	h.Write([]byte(s))
	return h.Sum64()
}

// roundTrip forces the scenario through JSON so that generated and replayed
// scenarios are the same data.
func roundTrip(h *Harness, sc interface{}) (interface{}, []byte, error) {
	b, err := json.Marshal(sc)
	if err != nil {
		return nil, nil, err
	}
	out := h.New()
	dec := json.NewDecoder(bytes.NewReader(b))
	if err := dec.Decode(out); err != nil {
		return nil, nil, err
	}
	return out, b, nil
}

var execCount int

// BeforeGC, if set by a harness, runs before each explicit collection between
// runs (e.g. to detach finalizers of objects a cut-off run left behind: a
// finalizer that touches a channel of a finished bubble crashes the process).
var BeforeGC func()

// execOnce runs one bubble. The garbage collector is switched off while a run
// executes (a GC cycle preempts the running goroutine and reorders the run
// queue, which would make schedules irreproducible) and is run explicitly
// between runs instead.
func execOnce(t *testing.T, h *Harness, sc interface{}, o sim.Options) *sim.Result {
	if execCount == 0 {
		debug.SetGCPercent(-1)
		debug.SetMemoryLimit(6 << 30)
	}
	execCount++
	if execCount%gcEvery == 0 {
		if BeforeGC != nil {
			BeforeGC()
		}
		runtime.GC()
	}
	if o.MaxSteps == 0 {
		o.MaxSteps = h.MaxSteps
	}
	if o.KeepLog == 0 {
		o.KeepLog = 300
	}
	return sim.Execute(t, o, func(r *sim.Run) {
		r.Deadlock = h.DeadlockClass
		h.Exec(r, sc)
	})
}

func hasClass(res *sim.Result, class string) (sim.Violation, bool) {
	for _, v := range res.Violations {
		if v.Class == class {
			return v, true
		}
	}
	return sim.Violation{}, false
}

// Main is called by the in-package test function of a harness.
func Main(t *testing.T, h *Harness) {
	mode := os.Getenv("VERIF_MODE")
	switch mode {
	case "", "run":
		runMode(t, h, false)
	case "determinism":
		runMode(t, h, true)
	case "replay":
		replayMode(t, h)
	default:
		t.Fatalf("unknown VERIF_MODE %q", mode)
	}
}

var watchdogSeed uint64
var watchdogStart time.Time

func startWatchdog(out string, limit time.Duration) {
	go func() {
		for {
			time.Sleep(500 * time.Millisecond)
			st, seed := watchdogStart, watchdogSeed
			if !st.IsZero() && time.Since(st) > limit {
				f, _ := os.OpenFile(out+".hung", os.O_CREATE|os.O_WRONLY|os.O_APPEND, 0o644)
				fmt.Fprintf(f, "%d\n", seed)
				f.Close()
				fmt.Fprintf(os.Stderr, "WATCHDOG: run with seed %d exceeded %v of wall time\n", seed, limit)
				os.Exit(3)
			}
		}
	}()
}

func runMode(t *testing.T, h *Harness, determinism bool) {
	base := uint64(envInt("VERIF_SEED_BASE", 1))
	worker := int(envInt("VERIF_WORKER", 0))
	nworkers := int(envInt("VERIF_NWORKERS", 1))
	maxRuns := int(envInt("VERIF_RUNS", 100))
	budget := time.Duration(envInt("VERIF_BUDGET_MS", 60000)) * time.Millisecond
	tier := os.Getenv("VERIF_TIER")
	if tier == "" {
		tier = "quick"
	}
	out := os.Getenv("VERIF_OUT")
	if out == "" {
		out = filepath.Join(os.TempDir(), fmt.Sprintf("verif-%s-%d.json", h.ID, worker))
	}
	replayDir := os.Getenv("VERIF_REPLAY_DIR")
	if replayDir == "" {
		replayDir = filepath.Dir(out)
	}
	startWatchdog(out, time.Duration(envInt("VERIF_WATCHDOG_S", 90))*time.Second)

	sum := &Summary{Property: h.ID, Worker: worker, Outcomes: map[string]int{}, Probes: map[string]int{}, Faults: map[string]int{},
		Strategies: map[string]int{}, Rule: h.Rule, Real: h.Real, Stub: h.Stub, Assume: h.Assumptions}
	if determinism {
		sum.Hashes = map[string]string{}
	}
	distinct := map[uint64]struct{}{}
	distinctSc := map[uint64]struct{}{}
	seenClass := map[string]int{}
	knownClasses := map[string]bool{}
	for _, c := range strings.Split(os.Getenv("VERIF_KNOWN_CLASSES"), ",") {
		if c != "" {
			knownClasses[c] = true
		}
	}
	var fallbackSample json.RawMessage
	start := time.Now()
	for i := 0; i < maxRuns; i++ {
		if time.Since(start) > budget {
			break
		}
		seed := base + uint64(i*nworkers+worker)
		if i == 0 {
			sum.FirstSeed = seed
		}
		sum.LastSeed = seed
		sc0 := h.Gen(sim.NewRand(sim.Mix(seed, 1)), tier)
		sc, raw, err := roundTrip(h, sc0)
		if err != nil {
			sum.Errors = append(sum.Errors, fmt.Sprintf("seed %d: scenario does not round-trip: %v", seed, err))
			continue
		}
		watchdogSeed, watchdogStart = seed, time.Now()
		os.WriteFile(out+".cur", []byte(strconv.FormatUint(seed, 10)), 0o644)
		res := execOnce(t, h, sc, sim.Options{Seed: sim.Mix(seed, 2)})
		watchdogStart = time.Time{}
		sum.Runs++
		sum.Outcomes[res.Outcome]++
		sum.Steps += int64(res.Steps)
		sum.Stalls += int64(res.Stalls)
		sum.SimNs += res.SimNs
		sum.Strategies[res.Strategy]++
		for k, v := range res.Probes {
			sum.Probes[k] += v
		}
		for k, v := range res.Faults {
			sum.Faults[k] += v
		}
		if determinism {
			// same scenario, same seed, second execution in this process
			sc2, _, _ := roundTrip(h, sc0)
			watchdogSeed, watchdogStart = seed, time.Now()
			res2 := execOnce(t, h, sc2, sim.Options{Seed: sim.Mix(seed, 2)})
			// and a pure replay from the recorded tape
			sc3, _, _ := roundTrip(h, sc0)
			res3 := execOnce(t, h, sc3, sim.Options{Tape: res.Tape, Replay: true})
			watchdogStart = time.Time{}
			if res.Hash != res2.Hash && os.Getenv("VERIF_DEBUG_DET") != "" {
				sa, _, _ := roundTrip(h, sc0)
				ra := execOnce(t, h, sa, sim.Options{Seed: sim.Mix(seed, 2), TraceSteps: true, KeepLog: 5000})
				sb, _, _ := roundTrip(h, sc0)
				rb := execOnce(t, h, sb, sim.Options{Seed: sim.Mix(seed, 2), TraceSteps: true, KeepLog: 5000})
				for i := 0; i < len(ra.Log) && i < len(rb.Log); i++ {
					if ra.Log[i] != rb.Log[i] {
						lo := i - 6
						if lo < 0 {
							lo = 0
						}
						scj, _ := json.Marshal(sc0)
						fmt.Printf("DIVERGENCE seed %d at log line %d\nSCENARIO %s\n", seed, i, scj)
						lo = 0
						if n := envInt("VERIF_DEBUG_DET_LINES", 6); i-int(n) > 0 {
							lo = i - int(n)
						}
						for j := lo; j <= i; j++ {
							fmt.Printf("  A %s\n  B %s\n", ra.Log[j], rb.Log[j])
						}
						break
					}
				}
			}
			sum.Hashes[strconv.FormatUint(seed, 10)] = res.Hash + "/" + res2.Hash + "/" + res3.Hash + "/" + res.Outcome
		}
		if res.Nontrivial {
			sum.Nontrivial++
			sig := res.Sig
			if sig == "" {
				sig = res.Hash
			}
			if len(distinct) < 400000 {
				distinct[h64(sig)] = struct{}{}
			}
			if len(distinctSc) < 400000 {
				distinctSc[h64(res.Hash)] = struct{}{}
			}
			if len(sum.Samples) < 2 {
				s, _ := json.Marshal(map[string]interface{}{"seed": seed, "scenario": json.RawMessage(raw), "outcome": res.Outcome, "nontrivial": true,
					"steps": res.Steps, "sim_ns": res.SimNs, "trace": headLog(res.Log, 60), "probes": res.Probes, "faults": res.Faults})
				sum.Samples = append(sum.Samples, s)
			}
		} else if fallbackSample == nil {
			fallbackSample, _ = json.Marshal(map[string]interface{}{"seed": seed, "scenario": json.RawMessage(raw), "outcome": res.Outcome, "nontrivial": false,
				"steps": res.Steps, "sim_ns": res.SimNs, "trace": headLog(res.Log, 60), "probes": res.Probes, "faults": res.Faults})
		}
		switch res.Outcome {
		case "harness-error", "deadlock":
			if len(sum.Errors) < 20 {
				sum.Errors = append(sum.Errors, fmt.Sprintf("seed %d: %s: %s", seed, res.Outcome, res.Detail))
			}
		}
		if len(res.Violations) > 0 && !determinism {
			classes := map[string]bool{}
			for _, v := range res.Violations {
				if classes[v.Class] {
					continue
				}
				classes[v.Class] = true
				seenClass[v.Class]++
				if seenClass[v.Class] > 1 {
					continue
				}
				var rf *ReplayFile
				if knownClasses[v.Class] {
					// a recorded known finding: keep the unminimised execution (cheap)
					_, raw2, _ := roundTrip(h, sc)
					rf = &ReplayFile{Property: h.ID, Class: v.Class, Msg: v.Msg, Seed: seed, Scenario: raw2, Tape: res.Tape, Hash: res.Hash, Steps: res.Steps, SimNs: res.SimNs, Log: res.Log}
				} else {
					rf = minimise(t, h, sc, res, v.Class, seed)
				}
				name := fmt.Sprintf("%s-%s-%d.json", h.ID, sanitize(v.Class), seed)
				path := filepath.Join(replayDir, name)
				b, _ := json.MarshalIndent(rf, "", " ")
				os.MkdirAll(replayDir, 0o755)
				os.WriteFile(path, b, 0o644)
				sum.Violations = append(sum.Violations, ViolationReport{Class: v.Class, Msg: rf.Msg, Seed: seed, Replay: path})
			}
		}
	}
	if len(sum.Samples) == 0 && fallbackSample != nil {
		sum.Samples = append(sum.Samples, fallbackSample)
	}
	for i := range sum.Violations {
		sum.Violations[i].Count = seenClass[sum.Violations[i].Class]
	}
	for k := range distinct {
		sum.Distinct = append(sum.Distinct, k)
	}
	for k := range distinctSc {
		sum.DistinctSc = append(sum.DistinctSc, k)
	}
	sort.Slice(sum.Distinct, func(i, j int) bool { return sum.Distinct[i] < sum.Distinct[j] })
	sum.WallS = time.Since(start).Seconds()
	b, _ := json.Marshal(sum)
	if err := os.WriteFile(out, b, 0o644); err != nil {
		t.Fatalf("write summary: %v", err)
	}
}

func headLog(l []string, n int) []string {
	if len(l) > n {
		return l[:n]
	}
	return l
}

func sanitize(s string) string {
	var b strings.Builder
	for _, c := range s {
		switch {
		case c >= 'a' && c <= 'z', c >= 'A' && c <= 'Z', c >= '0' && c <= '9', c == '.', c == '-', c == '_':
			b.WriteRune(c)
		default:
			b.WriteRune('_')
		}
	}
	return b.String()
}

func replayMode(t *testing.T, h *Harness) {
	path := os.Getenv("VERIF_REPLAY")
	b, err := os.ReadFile(path)
	if err != nil {
		t.Fatalf("read replay: %v", err)
	}
	var rf ReplayFile
	if err := json.Unmarshal(b, &rf); err != nil {
		t.Fatalf("parse replay: %v", err)
	}
	if rf.Crash {
		// re-run the seed exactly as the batch did; the expected outcome is that
		// this process dies with the same panic
		tier := os.Getenv("VERIF_TIER")
		if tier == "" {
			tier = "quick"
		}
		sc0 := h.Gen(sim.NewRand(sim.Mix(rf.Seed, 1)), tier)
		sc, _, _ := roundTrip(h, sc0)
		startWatchdog(path, 60*time.Second)
		watchdogStart = time.Now()
		res := execOnce(t, h, sc, sim.Options{Seed: sim.Mix(rf.Seed, 2)})
		watchdogStart = time.Time{}
		out := map[string]interface{}{"property": h.ID, "expected_class": rf.Class, "reproduced": false, "outcome": res.Outcome, "note": "the process survived the run"}
		jb, _ := json.MarshalIndent(out, "", " ")
		fmt.Printf("REPLAY-RESULT %s\n", string(jb))
		if o := os.Getenv("VERIF_OUT"); o != "" {
			os.WriteFile(o, jb, 0o644)
		}
		return
	}
	sc := h.New()
	if err := json.Unmarshal(rf.Scenario, sc); err != nil {
		t.Fatalf("parse scenario: %v", err)
	}
	startWatchdog(path, 60*time.Second)
	watchdogStart = time.Now()
	res := execOnce(t, h, sc, sim.Options{Tape: rf.Tape, Replay: true, KeepLog: 2000})
	watchdogStart = time.Time{}
	v, ok := hasClass(res, rf.Class)
	out := map[string]interface{}{"property": h.ID, "expected_class": rf.Class, "expected_hash": rf.Hash, "hash": res.Hash,
		"outcome": res.Outcome, "reproduced": ok, "same_hash": res.Hash == rf.Hash, "msg": v.Msg, "violations": res.Violations}
	jb, _ := json.MarshalIndent(out, "", " ")
	fmt.Printf("REPLAY-RESULT %s\n", string(jb))
	if os.Getenv("VERIF_REPLAY_LOG") != "" {
		for _, l := range res.Log {
			fmt.Println(l)
		}
	}
	if o := os.Getenv("VERIF_OUT"); o != "" {
		os.WriteFile(o, jb, 0o644)
	}
}

// minimise shrinks scenario and tape while the same violation class recurs,
// re-executing every candidate in a fresh bubble.
func minimise(t *testing.T, h *Harness, sc interface{}, res *sim.Result, class string, seed uint64) *ReplayFile {
	stats := map[string]int{"executions": 0, "accepted": 0}
	curSc := sc
	curRes := res
	deadline := time.Now().Add(time.Duration(envInt("VERIF_SHRINK_MS", 20000)) * time.Millisecond)
	try := func(cand interface{}, tape []uint32) bool {
		if time.Now().After(deadline) || stats["executions"] > 3000 {
			return false
		}
		c2, _, err := roundTrip(h, cand)
		if err != nil {
			return false
		}
		stats["executions"]++
		watchdogStart = time.Now()
		r := execOnce(t, h, c2, sim.Options{Tape: tape, Replay: true})
		watchdogStart = time.Time{}
		if r.Outcome == "harness-error" {
			return false
		}
		if _, ok := hasClass(r, class); !ok {
			return false
		}
		c3, _, _ := roundTrip(h, cand)
		curSc, curRes = c3, r
		stats["accepted"]++
		return true
	}
	// make sure the starting point replays from its tape
	if !try(curSc, res.Tape) {
		stats["initial_replay_failed"] = 1
	}
	for round := 0; round < 6; round++ {
		progress := false
		// 1. scenario: delete array elements (chunks, then single elements)
		for {
			b, _ := json.Marshal(curSc)
			var tree interface{}
			td := json.NewDecoder(bytes.NewReader(b))
			td.UseNumber()
			td.Decode(&tree)
			paths := arrayPaths(tree, nil)
			changed := false
			for _, p := range paths {
				n := arrayLen(tree, p)
				for chunk := n; chunk >= 1; chunk /= 2 {
					for at := 0; at+chunk <= arrayLen(tree, p); {
						cand := deleteAt(tree, p, at, chunk)
						cb, _ := json.Marshal(cand)
						csc := h.New()
						if json.Unmarshal(cb, csc) != nil {
							at += chunk
							continue
						}
						if try(csc, curRes.Tape) {
							tree = cand
							changed = true
						} else {
							at += chunk
						}
					}
				}
			}
			if h.Shrink != nil {
				for _, cand := range h.Shrink(curSc) {
					if try(cand, curRes.Tape) {
						changed = true
						break
					}
				}
			}
			if !changed && round < 2 {
				// scalars: try 0, then 1, then half of every integer leaf
				b2, _ := json.Marshal(curSc)
				var t2 interface{}
				d2 := json.NewDecoder(bytes.NewReader(b2))
				d2.UseNumber()
				d2.Decode(&t2)
				for _, np := range numberPaths(t2, nil) {
					cur, ok := lookup(t2, np).(json.Number)
					if !ok {
						continue
					}
					iv, err := cur.Int64()
					if err != nil || iv == 0 {
						continue
					}
					for _, nv := range []int64{0, 1, iv / 2} {
						if nv == iv || (nv == 1 && iv < 1) {
							continue
						}
						cand := setAt(t2, np, json.Number(strconv.FormatInt(nv, 10)))
						cb, _ := json.Marshal(cand)
						csc := h.New()
						if json.Unmarshal(cb, csc) != nil {
							continue
						}
						if try(csc, curRes.Tape) {
							t2 = cand
							changed = true
							break
						}
					}
				}
			}
			if !changed {
				break
			}
			progress = true
		}
		// 2. tape: shorter prefix (rest = oldest-first, no stalls), then zero blocks
		tape := append([]uint32(nil), curRes.Tape...)
		lo, hi := sim.TapeHeader, len(tape)
		for lo < hi {
			mid := (lo + hi) / 2
			if try(curSc, tape[:mid]) {
				hi = mid
				progress = true
			} else {
				lo = mid + 1
			}
		}
		tape = append([]uint32(nil), curRes.Tape...)
		for blk := len(tape) / 2; blk >= 1; blk /= 2 {
			for at := sim.TapeHeader; at+blk <= len(tape); at += blk {
				allZero := true
				for _, v := range tape[at : at+blk] {
					if v != 0 {
						allZero = false
					}
				}
				if allZero {
					continue
				}
				cand := append([]uint32(nil), tape...)
				for i := at; i < at+blk; i++ {
					cand[i] = 0
				}
				if try(curSc, cand) {
					tape = append([]uint32(nil), curRes.Tape...)
					if at+blk > len(tape) {
						break
					}
					progress = true
				}
			}
			if blk > 64 && time.Now().After(deadline) {
				break
			}
		}
		if !progress {
			break
		}
	}
	// final: exact replay of the minimised execution to record its own tape and hash
	fsc, raw, _ := roundTrip(h, curSc)
	watchdogStart = time.Now()
	final := execOnce(t, h, fsc, sim.Options{Tape: curRes.Tape, Replay: true, KeepLog: 2000})
	watchdogStart = time.Time{}
	v, ok := hasClass(final, class)
	if !ok {
		// fall back to the original, unminimised execution
		_, raw, _ = roundTrip(h, sc)
		final = res
		v, _ = hasClass(res, class)
		stats["final_replay_failed"] = 1
	}
	return &ReplayFile{Property: h.ID, Class: class, Msg: v.Msg, Seed: seed, Scenario: raw, Tape: final.Tape, Hash: final.Hash,
		Steps: final.Steps, SimNs: final.SimNs, Log: final.Log, Shrink: stats}
}

// --- generic JSON tree helpers -------------------------------------------

type pathElem struct {
	key string
	idx int
}

func arrayPaths(v interface{}, prefix []pathElem) [][]pathElem {
	var out [][]pathElem
	switch x := v.(type) {
	case []interface{}:
		out = append(out, append([]pathElem(nil), prefix...))
		for i, e := range x {
			out = append(out, arrayPaths(e, append(append([]pathElem(nil), prefix...), pathElem{idx: i, key: "\x00"}))...)
		}
	case map[string]interface{}:
		keys := make([]string, 0, len(x))
		for k := range x {
			keys = append(keys, k)
		}
		sort.Strings(keys)
		for _, k := range keys {
			out = append(out, arrayPaths(x[k], append(append([]pathElem(nil), prefix...), pathElem{key: k}))...)
		}
	}
	return out
}

// numberPaths lists the paths of all integer leaves.
func numberPaths(v interface{}, prefix []pathElem) [][]pathElem {
	var out [][]pathElem
	switch x := v.(type) {
	case json.Number:
		out = append(out, append([]pathElem(nil), prefix...))
	case []interface{}:
		for i, e := range x {
			out = append(out, numberPaths(e, append(append([]pathElem(nil), prefix...), pathElem{idx: i, key: "\x00"}))...)
		}
	case map[string]interface{}:
		keys := make([]string, 0, len(x))
		for k := range x {
			keys = append(keys, k)
		}
		sort.Strings(keys)
		for _, k := range keys {
			out = append(out, numberPaths(x[k], append(append([]pathElem(nil), prefix...), pathElem{key: k}))...)
		}
	}
	return out
}

// setAt returns a deep copy of v with the leaf at path p replaced by nv.
func setAt(v interface{}, p []pathElem, nv interface{}) interface{} {
	if len(p) == 0 {
		return nv
	}
	switch x := v.(type) {
	case []interface{}:
		out := make([]interface{}, len(x))
		copy(out, x)
		if p[0].key == "\x00" && p[0].idx < len(x) {
			out[p[0].idx] = setAt(x[p[0].idx], p[1:], nv)
		}
		return out
	case map[string]interface{}:
		out := make(map[string]interface{}, len(x))
		for k, e := range x {
			out[k] = e
		}
		out[p[0].key] = setAt(x[p[0].key], p[1:], nv)
		return out
	}
	return v
}

func lookup(v interface{}, p []pathElem) interface{} {
	for _, e := range p {
		switch x := v.(type) {
		case []interface{}:
			if e.key != "\x00" || e.idx >= len(x) {
				return nil
			}
			v = x[e.idx]
		case map[string]interface{}:
			v = x[e.key]
		default:
			return nil
		}
	}
	return v
}

func arrayLen(v interface{}, p []pathElem) int {
	if a, ok := lookup(v, p).([]interface{}); ok {
		return len(a)
	}
	return 0
}

// deleteAt returns a deep copy of v with n elements removed at index at of the array at path p.
func deleteAt(v interface{}, p []pathElem, at, n int) interface{} {
	if len(p) == 0 {
		a, ok := v.([]interface{})
		if !ok {
			return v
		}
		out := make([]interface{}, 0, len(a))
		for i, e := range a {
			if i >= at && i < at+n {
				continue
			}
			out = append(out, e)
		}
		return out
	}
	switch x := v.(type) {
	case []interface{}:
		out := make([]interface{}, len(x))
		copy(out, x)
		if p[0].key == "\x00" && p[0].idx < len(x) {
			out[p[0].idx] = deleteAt(x[p[0].idx], p[1:], at, n)
		}
		return out
	case map[string]interface{}:
		out := make(map[string]interface{}, len(x))
		for k, e := range x {
			out[k] = e
		}
		out[p[0].key] = deleteAt(x[p[0].key], p[1:], at, n)
		return out
	}
	return v
}
