//go:build go1.21

// Package simtime is substituted for package time in files opted in with
// "timeshim". Timers and tickers still run on the bubble's virtual clock, but a
// goroutine woken by one first passes a scheduler gate: goroutines whose timers
// fire at the same virtual instant otherwise continue in an irreproducible
// order (timer-heap ties). Everything else aliases package time.
package simtime

import (
	"time"

	"verif/simkit/sim"
)

type (
	Duration   = time.Duration
	Time       = time.Time
	Month      = time.Month
	Weekday    = time.Weekday
	Location   = time.Location
	ParseError = time.ParseError
)

const (
	Nanosecond  = time.Nanosecond
	Microsecond = time.Microsecond
	Millisecond = time.Millisecond
	Second      = time.Second
	Minute      = time.Minute
	Hour        = time.Hour

	Layout      = time.Layout
	ANSIC       = time.ANSIC
	UnixDate    = time.UnixDate
	RubyDate    = time.RubyDate
	RFC822      = time.RFC822
	RFC822Z     = time.RFC822Z
	RFC850      = time.RFC850
	RFC1123     = time.RFC1123
	RFC1123Z    = time.RFC1123Z
	RFC3339     = time.RFC3339
	RFC3339Nano = time.RFC3339Nano
	Kitchen     = time.Kitchen
	Stamp       = time.Stamp
	StampMilli  = time.StampMilli
	StampMicro  = time.StampMicro
	StampNano   = time.StampNano
	DateTime    = time.DateTime
	DateOnly    = time.DateOnly
	TimeOnly    = time.TimeOnly

	January   = time.January
	February  = time.February
	March     = time.March
	April     = time.April
	May       = time.May
	June      = time.June
	July      = time.July
	August    = time.August
	September = time.September
	October   = time.October
	November  = time.November
	December  = time.December

	Sunday    = time.Sunday
	Monday    = time.Monday
	Tuesday   = time.Tuesday
	Wednesday = time.Wednesday
	Thursday  = time.Thursday
	Friday    = time.Friday
	Saturday  = time.Saturday
)

var (
	UTC   = time.UTC
	Local = time.Local

	Now             = time.Now
	Since           = time.Since
	Until           = time.Until
	Unix            = time.Unix
	UnixMilli       = time.UnixMilli
	UnixMicro       = time.UnixMicro
	Date            = time.Date
	Parse           = time.Parse
	ParseInLocation = time.ParseInLocation
	ParseDuration   = time.ParseDuration
	LoadLocation    = time.LoadLocation
	FixedZone       = time.FixedZone
)

func gate(site string) { sim.Yield(sim.GateTask, site) }

// Sleep sleeps on the virtual clock, then passes a gate.
func Sleep(d Duration) {
	time.Sleep(d)
	gate("time.Sleep")
}

// Timer mirrors time.Timer; C delivers after a gate.
type Timer struct {
	C    <-chan Time
	real *time.Timer
	out  chan Time
	fn   bool
}

// Ticker mirrors time.Ticker; C delivers after a gate.
type Ticker struct {
	C    <-chan Time
	real *time.Ticker
	out  chan Time
	done chan struct{}
}

// NewTimer returns a timer whose channel is fed by a forwarding goroutine
// (started, and thereby named, by the caller: a goroutine started by the timer
// system itself would have no reproducible identity).
func NewTimer(d Duration) *Timer {
	rt := time.NewTimer(d)
	if sim.Active() == nil {
		return &Timer{C: rt.C, real: rt}
	}
	out := make(chan Time, 1)
	t := &Timer{C: out, out: out, real: rt}
	go func() {
		gate("timer.start")
		for v := range rt.C {
			gate("timer.fire")
			select {
			case out <- v:
			default:
			}
		}
	}()
	return t
}

// Stop stops the timer.
func (t *Timer) Stop() bool { return t.real.Stop() }

// Reset re-arms the timer.
func (t *Timer) Reset(d Duration) bool { return t.real.Reset(d) }

// After is NewTimer(d).C.
func After(d Duration) <-chan Time { return NewTimer(d).C }

// AfterFunc runs f in its own goroutine after d, behind a gate.
func AfterFunc(d Duration, f func()) *Timer {
	if sim.Active() == nil {
		return &Timer{fn: true, real: time.AfterFunc(d, f)}
	}
	rt := time.NewTimer(d)
	t := &Timer{fn: true, real: rt}
	go func() {
		gate("timer.start")
		for range rt.C {
			gate("timer.func")
			f()
		}
	}()
	return t
}

// NewTicker returns a ticker whose channel is fed by a forwarding goroutine
// that gates after every tick of the real ticker.
func NewTicker(d Duration) *Ticker {
	rt := time.NewTicker(d)
	if sim.Active() == nil {
		return &Ticker{C: rt.C, real: rt}
	}
	out := make(chan Time, 1)
	t := &Ticker{C: out, real: rt, out: out, done: make(chan struct{})}
	go func() {
		gate("ticker.start")
		for {
			select {
			case v := <-rt.C:
				gate("ticker.tick")
				select {
				case <-t.done:
					return
				default:
				}
				select {
				case out <- v:
				default:
				}
			case <-t.done:
				return
			}
		}
	}()
	return t
}

// Stop stops the ticker and its forwarding goroutine.
func (t *Ticker) Stop() {
	t.real.Stop()
	if t.done != nil {
		select {
		case <-t.done:
		default:
			close(t.done)
		}
	}
}

// Reset changes the period.
func (t *Ticker) Reset(d Duration) { t.real.Reset(d) }

// Tick is NewTicker(d).C.
func Tick(d Duration) <-chan Time { return NewTicker(d).C }
