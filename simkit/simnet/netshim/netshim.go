//go:build go1.21

// Package netshim is substituted for package net in the few easegress files
// that listen or dial (broker.go, proxy.go ...): Listen and Dialer route to
// the simulated network installed with simnet.SetDefault; everything else is
// an alias of the real package.
package netshim

import (
	"context"
	"net"
	"time"

	"verif/simkit/simnet"
)

type (
	Conn         = net.Conn
	Listener     = net.Listener
	Addr         = net.Addr
	IP           = net.IP
	IPNet        = net.IPNet
	IPMask       = net.IPMask
	Error        = net.Error
	OpError      = net.OpError
	TCPAddr      = net.TCPAddr
	TCPConn      = net.TCPConn
	UDPAddr      = net.UDPAddr
	Resolver     = net.Resolver
	AddrError    = net.AddrError
	DNSError     = net.DNSError
	HardwareAddr = net.HardwareAddr
	Interface    = net.Interface
)

var (
	ParseIP         = net.ParseIP
	ParseCIDR       = net.ParseCIDR
	SplitHostPort   = net.SplitHostPort
	JoinHostPort    = net.JoinHostPort
	LookupHost      = net.LookupHost
	LookupIP        = net.LookupIP
	IPv4            = net.IPv4
	CIDRMask        = net.CIDRMask
	ErrClosed       = net.ErrClosed
	ResolveTCPAddr  = net.ResolveTCPAddr
	InterfaceAddrs  = net.InterfaceAddrs
	Interfaces      = net.Interfaces
	IPv4len         = net.IPv4len
	IPv6len         = net.IPv6len
	DefaultResolver = net.DefaultResolver
)

// Listen listens on the simulated network if one is installed.
func Listen(network, addr string) (net.Listener, error) {
	if n := simnet.Default(); n != nil {
		return n.Listen(network, addr)
	}
	return net.Listen(network, addr)
}

// Dial dials on the simulated network if one is installed.
func Dial(network, addr string) (net.Conn, error) {
	if n := simnet.Default(); n != nil {
		return n.Dial(context.Background(), network, addr)
	}
	return net.Dial(network, addr)
}

// DialTimeout dials with a time-out.
func DialTimeout(network, addr string, d time.Duration) (net.Conn, error) {
	if n := simnet.Default(); n != nil {
		ctx, cancel := context.WithTimeout(context.Background(), d)
		defer cancel()
		return n.Dial(ctx, network, addr)
	}
	return net.DialTimeout(network, addr, d)
}

// Dialer mirrors net.Dialer's commonly used fields.
type Dialer struct {
	Timeout       time.Duration
	Deadline      time.Time
	LocalAddr     net.Addr
	DualStack     bool
	FallbackDelay time.Duration
	KeepAlive     time.Duration
	Resolver      *net.Resolver
}

// DialContext dials on the simulated network if one is installed.
func (d *Dialer) DialContext(ctx context.Context, network, addr string) (net.Conn, error) {
	if n := simnet.Default(); n != nil {
		if d.Timeout > 0 {
			var cancel context.CancelFunc
			ctx, cancel = context.WithTimeout(ctx, d.Timeout)
			defer cancel()
		}
		return n.Dial(ctx, network, addr)
	}
	rd := &net.Dialer{Timeout: d.Timeout, Deadline: d.Deadline, LocalAddr: d.LocalAddr, FallbackDelay: d.FallbackDelay, KeepAlive: d.KeepAlive, Resolver: d.Resolver}
	return rd.DialContext(ctx, network, addr)
}

// Dial dials without a context.
func (d *Dialer) Dial(network, addr string) (net.Conn, error) {
	return d.DialContext(context.Background(), network, addr)
}
