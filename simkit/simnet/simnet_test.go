//go:debug asynctimerchan=0
//go:build go1.21

package simnet

import (
	"context"
	"fmt"
	"io"
	"net"
	"net/http"
	"runtime/debug"
	"strings"
	"testing"
	"time"

	"verif/simkit/sim"
)

func httpScenario(seed uint64) func(r *sim.Run) {
	return func(r *sim.Run) {
		rng := sim.NewRand(seed)
		n := New()
		n.BufferSize = rng.Pick(64, 4096, 65536)
		n.PlanFor = func(id int, addr string) (DirPlan, DirPlan) {
			return DirPlan{SegSizes: []int{rng.Pick(1, 3, 100, 0)}, Delays: []time.Duration{time.Duration(rng.Pick(0, 1, 1000)) * time.Microsecond}},
				DirPlan{SegSizes: []int{rng.Pick(1, 7, 0)}, Delays: []time.Duration{time.Duration(rng.Pick(0, 5, 2000)) * time.Microsecond}}
		}
		l, _ := n.Listen("tcp", ":80")
		srv := &http.Server{Handler: http.HandlerFunc(func(w http.ResponseWriter, req *http.Request) {
			b, _ := io.ReadAll(req.Body)
			r.Eventf("server got %s %d", req.URL.Path, len(b))
			w.Header().Set("X-Echo", req.URL.Path)
			w.Write([]byte(strings.ToUpper(string(b))))
		})}
		go srv.Serve(l)
		tr := &http.Transport{DialContext: func(ctx context.Context, network, addr string) (net.Conn, error) { return n.Dial(ctx, network, addr) }}
		cl := &http.Client{Transport: tr}
		for c := 0; c < 3; c++ {
			c := c
			r.Go(fmt.Sprintf("client%d", c), func() {
				for i := 0; i < 3; i++ {
					body := strings.Repeat(fmt.Sprintf("c%di%d-", c, i), 1+rng.Intn(300))
					resp, err := cl.Post(fmt.Sprintf("http://backend:80/p%d/%d", c, i), "text/plain", strings.NewReader(body))
					if err != nil {
						r.Violate("http", "client %d: %v", c, err)
						return
					}
					got, _ := io.ReadAll(resp.Body)
					resp.Body.Close()
					if string(got) != strings.ToUpper(body) {
						r.Violate("http", "client %d req %d: body mismatch (%d vs %d bytes)", c, i, len(got), len(body))
					}
					r.Eventf("client %d got %d bytes", c, len(got))
					r.Sleep(time.Duration(rng.Intn(5)) * time.Millisecond)
				}
			})
		}
		r.WaitTasks()
		tr.CloseIdleConnections()
		ctx, cancel := context.WithTimeout(context.Background(), time.Second)
		srv.Shutdown(ctx)
		cancel()
		n.Shutdown()
	}
}

func TestHTTPOverSimnet(t *testing.T) {
	debug.SetGCPercent(-1)
	mism := 0
	start := time.Now()
	const N = 300
	for seed := uint64(1); seed <= N; seed++ {
		a := sim.Execute(t, sim.Options{Seed: seed, KeepLog: 100}, httpScenario(seed))
		b := sim.Execute(t, sim.Options{Seed: seed, KeepLog: 100}, httpScenario(seed))
		c := sim.Execute(t, sim.Options{Tape: a.Tape, Replay: true, KeepLog: 100}, httpScenario(seed))
		if a.Outcome != "ok" {
			t.Fatalf("seed %d: %s %v %s", seed, a.Outcome, a.Violations, a.Detail)
		}
		if a.Hash != b.Hash || a.Hash != c.Hash {
			mism++
			if mism < 4 {
				t.Logf("seed %d: hashes %s %s %s steps %d %d %d leftover %v", seed, a.Hash, b.Hash, c.Hash, a.Steps, b.Steps, c.Steps, a.Leftover)
			}
		}
	}
	t.Logf("%d seeds x3, %d mismatches, %.2f ms/run", N, mism, float64(time.Since(start).Milliseconds())/float64(3*N))
	if mism > 0 {
		t.Fail()
	}
}
