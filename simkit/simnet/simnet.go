//go:build go1.21

// Package simnet is a simulated TCP network for deterministic simulation:
// listeners, connections with bounded buffers and deadlines on the virtual
// clock, ordered segment delivery through scheduler gates, and a per-direction
// fault plan (segmentation, delay, stall, reset, black hole, half close).
// Everything blocks on channels created inside the bubble, so it is durable
// under testing/synctest. Bytes are never lost, duplicated or reordered inside
// a connection (TCP excludes that); what varies is timing, fragmentation and
// how and when a connection ends.
package simnet

import (
	"sync/atomic"
	"runtime"
	"context"
	"errors"
	"fmt"
	"io"
	"net"
	"os"
	"sync"
	"syscall"
	"time"

	"verif/simkit/sim"
)

// DirPlan is the fault plan of one direction of a connection.
type DirPlan struct {
	SegSizes       []int           // sizes of successive segments (cycled); empty = whole writes
	Delays         []time.Duration // latency of successive segments (cycled); empty = none
	ResetAfter     int64           // reset the connection once this many bytes were delivered (0 = never)
	BlackholeAfter int64           // silently drop everything after this many bytes, FIN included (0 = never)
	StallAfter     int64           // after this many bytes pause delivery for StallFor (0 = never)
	StallFor       time.Duration
}

// Addr is a simulated TCP address.
type Addr struct{ S string }

func (a Addr) Network() string { return "tcp" }
func (a Addr) String() string  { return a.S }

type seg struct {
	data  []byte
	fin   bool
	delay time.Duration
}

// half is one direction of a connection (writer end -> reader end).
type half struct {
	mu          sync.Mutex
	wake        chan struct{}
	flight      []seg
	flightBytes int
	buf         []byte
	capacity    int
	plan        DirPlan
	segIdx      int
	delivered   int64
	finQueued   bool
	finDeliv    bool
	reset       bool
	readerGone  bool // the reading end was closed locally
	dead        bool
	stalled     bool
	blackholed  bool
	name        string
	other       *half // opposite direction of the same connection
}

func (h *half) broadcast() {
	close(h.wake)
	h.wake = make(chan struct{})
}

// Conn is one end of a simulated connection.
type Conn struct {
	net        *Net
	in, out    *half
	peer       *Conn
	local, rem Addr
	mu         sync.Mutex
	closed     bool
	rdl, wdl   time.Time
	ID         int
	Server     bool
	sname      string // server side: canonical name for the goroutine that serves this connection
	snamed     atomic.Bool
}

// nameServing names the first goroutine that touches the server side of a
// connection after the dialling goroutine (see sim.NameGoroutine).
func (c *Conn) nameServing() {
	if c.sname != "" && !c.snamed.Load() {
		c.snamed.Store(true)
		sim.NameGoroutine(c.sname)
	}
}

// Net is a simulated network.
type Net struct {
	mu        sync.Mutex
	listeners map[string]*Listener
	nextPort  int
	nextID    int
	conns     []*Conn
	// PlanFor, if set, chooses the fault plans of a new connection
	// (client->server, server->client). It runs in the dialling goroutine.
	PlanFor func(id int, dialAddr string) (c2s, s2c DirPlan)
	// BufferSize is the per-direction capacity in bytes (default 64 KiB).
	BufferSize int
	// DialLatency delays connection establishment.
	DialLatency time.Duration
	// GateOnClose makes Conn.Close pass a scheduler gate first, so that other
	// goroutines may run between whatever the caller did before closing (e.g.
	// releasing a connection slot) and the socket really being closed. Only
	// for harnesses that never close connections while a real (uninstrumented)
	// mutex is held, e.g. never call http.Server.Close inside a run.
	GateOnClose bool
	down        map[string]bool
}

var defaultNet *Net

// SetDefault installs the network used by the netshim package functions.
func SetDefault(n *Net) { defaultNet = n }

// Default returns the network installed with SetDefault.
func Default() *Net { return defaultNet }

// New creates an empty network.
func New() *Net {
	return &Net{listeners: map[string]*Listener{}, nextPort: 40000, down: map[string]bool{}}
}

// Listener is a simulated TCP listener.
type Listener struct {
	net     *Net
	addr    Addr
	mu      sync.Mutex
	wake    chan struct{}
	backlog []*Conn
	closed  bool
}

func portOf(addr string) string {
	_, p, err := net.SplitHostPort(addr)
	if err != nil {
		return addr
	}
	return p
}

// Listen creates a listener on addr ("host:port" or ":port").
func (n *Net) Listen(network, addr string) (net.Listener, error) {
	n.mu.Lock()
	defer n.mu.Unlock()
	if _, ok := n.listeners[addr]; ok {
		return nil, &net.OpError{Op: "listen", Net: "tcp", Err: syscall.EADDRINUSE}
	}
	l := &Listener{net: n, addr: Addr{addr}, wake: make(chan struct{})}
	n.listeners[addr] = l
	return l, nil
}

func (l *Listener) Addr() net.Addr { return l.addr }

// Accept waits for the next connection.
func (l *Listener) Accept() (net.Conn, error) {
	// Let the goroutine the caller started for the previous connection run to its
	// first gate before the next connection is handed out: sibling goroutines get
	// their canonical names (parent>creator#ordinal) in the order of their first
	// gate, and that order must be the order of creation to be reproducible.
	if sim.Active() != nil {
		runtime.Gosched()
	}
	for {
		l.mu.Lock()
		if l.closed {
			l.mu.Unlock()
			return nil, net.ErrClosed
		}
		if len(l.backlog) > 0 {
			c := l.backlog[0]
			l.backlog = l.backlog[1:]
			l.mu.Unlock()
			return c, nil
		}
		w := l.wake
		l.mu.Unlock()
		<-w
	}
}

// Close stops the listener; queued, not yet accepted connections are reset.
func (l *Listener) Close() error {
	l.mu.Lock()
	if l.closed {
		l.mu.Unlock()
		return nil
	}
	l.closed = true
	bl := l.backlog
	l.backlog = nil
	close(l.wake)
	l.wake = make(chan struct{})
	l.mu.Unlock()
	l.net.mu.Lock()
	if l.net.listeners[l.addr.S] == l {
		delete(l.net.listeners, l.addr.S)
	}
	l.net.mu.Unlock()
	for _, c := range bl {
		c.Reset()
	}
	return nil
}

// Pending returns the number of established but not yet accepted connections.
func (l *Listener) Pending() int {
	l.mu.Lock()
	defer l.mu.Unlock()
	return len(l.backlog)
}

func (n *Net) lookup(addr string) *Listener {
	if l, ok := n.listeners[addr]; ok {
		return l
	}
	if l, ok := n.listeners[":"+portOf(addr)]; ok {
		return l
	}
	// a listener registered with a host matches a dial to the same port on any
	// host only if it is the only listener on that port
	var found *Listener
	for a, l := range n.listeners {
		if portOf(a) == portOf(addr) {
			if found != nil {
				return nil
			}
			found = l
		}
	}
	return found
}

// SetDown makes dials to addr fail with "connection refused" while down.
func (n *Net) SetDown(addr string, down bool) {
	n.mu.Lock()
	n.down[addr] = down
	n.mu.Unlock()
}

// Dial connects to addr from an automatically chosen local address.
func (n *Net) Dial(ctx context.Context, network, addr string) (net.Conn, error) {
	return n.DialFrom(ctx, "", addr)
}

// DialFrom connects to addr from the given local IP (port chosen automatically).
func (n *Net) DialFrom(ctx context.Context, localIP, addr string) (net.Conn, error) {
	if err := ctx.Err(); err != nil {
		return nil, err
	}
	sim.Yield(sim.GateNet, "net.dial")
	if n.DialLatency > 0 {
		t := time.NewTimer(n.DialLatency)
		select {
		case <-t.C:
		case <-ctx.Done():
			t.Stop()
			return nil, ctx.Err()
		}
		sim.Yield(sim.GateNet, "net.dialed")
	}
	n.mu.Lock()
	l := n.lookup(addr)
	if n.down[addr] {
		l = nil
	}
	if l == nil {
		n.mu.Unlock()
		if r := sim.Current(); r != nil {
			r.Fault("net.dial_refused")
		}
		return nil, &net.OpError{Op: "dial", Net: "tcp", Addr: Addr{addr}, Err: syscall.ECONNREFUSED}
	}
	n.nextPort++
	n.nextID++
	id := n.nextID
	if localIP == "" {
		localIP = "10.1.0.1"
	}
	la := Addr{net.JoinHostPort(localIP, fmt.Sprint(n.nextPort))}
	capacity := n.BufferSize
	if capacity <= 0 {
		capacity = 64 << 10
	}
	planFor := n.PlanFor
	n.mu.Unlock()
	var p1, p2 DirPlan
	if planFor != nil {
		p1, p2 = planFor(id, addr)
	}
	c2s := &half{wake: make(chan struct{}), capacity: capacity, plan: p1, name: fmt.Sprintf("c%d>", id)}
	s2c := &half{wake: make(chan struct{}), capacity: capacity, plan: p2, name: fmt.Sprintf("c%d<", id)}
	c2s.other, s2c.other = s2c, c2s
	ra := Addr{addr}
	if h, _, err := net.SplitHostPort(addr); err != nil || h == "" || net.ParseIP(h) == nil {
		// give the server side a numeric address; keep the port
		ra = Addr{net.JoinHostPort("10.2.0.1", portOf(addr))}
	}
	cc := &Conn{net: n, in: s2c, out: c2s, local: la, rem: ra, ID: id}
	sc := &Conn{net: n, in: c2s, out: s2c, local: ra, rem: la, ID: id, Server: true}
	if dn := sim.CurrentName(); dn != "" {
		sc.sname = "serve<" + dn + ">"
	}
	cc.peer, sc.peer = sc, cc
	n.mu.Lock()
	n.conns = append(n.conns, cc, sc)
	n.mu.Unlock()
	go c2s.deliverLoop()
	go s2c.deliverLoop()
	l.mu.Lock()
	if l.closed {
		l.mu.Unlock()
		cc.kill()
		return nil, &net.OpError{Op: "dial", Net: "tcp", Addr: Addr{addr}, Err: syscall.ECONNREFUSED}
	}
	l.backlog = append(l.backlog, sc)
	close(l.wake)
	l.wake = make(chan struct{})
	l.mu.Unlock()
	return cc, nil
}

// deliverLoop moves segments from flight to the receive buffer, one at a
// time, each after its latency and through a scheduler gate.
func (h *half) deliverLoop() {
	for {
		h.mu.Lock()
		for len(h.flight) == 0 && !h.dead {
			w := h.wake
			h.mu.Unlock()
			<-w
			h.mu.Lock()
		}
		if h.dead {
			h.mu.Unlock()
			return
		}
		s := h.flight[0]
		stall := time.Duration(0)
		if h.plan.StallAfter > 0 && !h.stalled && h.delivered >= h.plan.StallAfter {
			h.stalled = true
			stall = h.plan.StallFor
		}
		h.mu.Unlock()
		if stall > 0 {
			if r := sim.Current(); r != nil {
				r.Fault("net.stall")
			}
			time.Sleep(stall)
		}
		if s.delay > 0 {
			time.Sleep(s.delay)
		}
		sim.Yield(sim.GateNet, "net.deliver")
		h.mu.Lock()
		if h.dead || len(h.flight) == 0 {
			h.mu.Unlock()
			if h.dead {
				return
			}
			continue
		}
		h.flight = h.flight[1:]
		h.flightBytes -= len(s.data)
		switch {
		case h.blackholed || (h.plan.BlackholeAfter > 0 && h.delivered >= h.plan.BlackholeAfter):
			if !h.blackholed {
				h.blackholed = true
				if r := sim.Current(); r != nil {
					r.Fault("net.blackhole")
				}
			}
		case s.fin:
			h.finDeliv = true
		default:
			if !h.readerGone {
				h.buf = append(h.buf, s.data...)
			}
			h.delivered += int64(len(s.data))
			if h.plan.ResetAfter > 0 && h.delivered >= h.plan.ResetAfter && !h.reset {
				h.reset = true
				h.dead = true
				if r := sim.Current(); r != nil {
					r.Fault("net.reset")
				}
			}
		}
		reset := h.reset
		h.broadcast()
		h.mu.Unlock()
		if reset {
			o := h.other
			o.mu.Lock()
			o.reset, o.dead = true, true
			o.buf, o.flight, o.flightBytes = nil, nil, 0
			o.broadcast()
			o.mu.Unlock()
			return
		}
	}
}

func (c *Conn) LocalAddr() net.Addr  { return c.local }
func (c *Conn) RemoteAddr() net.Addr { return c.rem }

func (c *Conn) deadline(read bool) time.Time {
	c.mu.Lock()
	defer c.mu.Unlock()
	if read {
		return c.rdl
	}
	return c.wdl
}

func (c *Conn) isClosed() bool {
	c.mu.Lock()
	defer c.mu.Unlock()
	return c.closed
}

// waitOn blocks until the half changes or the deadline passes.
func waitOn(w chan struct{}, dl time.Time) {
	if dl.IsZero() {
		<-w
		return
	}
	d := time.Until(dl)
	if d <= 0 {
		return
	}
	t := time.NewTimer(d)
	fired := false
	select {
	case <-w:
	case <-t.C:
		fired = true
	}
	t.Stop()
	if fired {
		// goroutines whose deadlines expire at the same virtual instant continue
		// in a scheduler-chosen (reproducible) order
		sim.Yield(sim.GateNet, "net.deadline")
	}
}

// Read implements net.Conn.
func (c *Conn) Read(b []byte) (int, error) {
	c.nameServing()
	h := c.in
	for {
		if c.isClosed() {
			return 0, net.ErrClosed
		}
		h.mu.Lock()
		if len(h.buf) > 0 && len(b) > 0 {
			n := copy(b, h.buf)
			h.buf = h.buf[n:]
			if len(h.buf) == 0 {
				h.buf = nil
			}
			h.broadcast() // space freed: a blocked writer may continue
			h.mu.Unlock()
			return n, nil
		}
		if len(b) == 0 {
			h.mu.Unlock()
			return 0, nil
		}
		if h.reset {
			h.mu.Unlock()
			return 0, &net.OpError{Op: "read", Net: "tcp", Err: syscall.ECONNRESET}
		}
		if h.finDeliv {
			h.mu.Unlock()
			return 0, io.EOF
		}
		dl := c.deadline(true)
		if !dl.IsZero() && !time.Now().Before(dl) {
			h.mu.Unlock()
			return 0, &net.OpError{Op: "read", Net: "tcp", Err: os.ErrDeadlineExceeded}
		}
		w := h.wake
		h.mu.Unlock()
		waitOn(w, dl)
	}
}

// Write implements net.Conn. It blocks while the peer's receive window
// (capacity minus in-flight and unread bytes) is full.
func (c *Conn) Write(b []byte) (int, error) {
	c.nameServing()
	h := c.out
	total := 0
	for len(b) > 0 {
		if c.isClosed() {
			return total, net.ErrClosed
		}
		h.mu.Lock()
		if h.reset {
			h.mu.Unlock()
			return total, &net.OpError{Op: "write", Net: "tcp", Err: syscall.ECONNRESET}
		}
		if h.finQueued {
			h.mu.Unlock()
			return total, &net.OpError{Op: "write", Net: "tcp", Err: syscall.EPIPE}
		}
		if h.readerGone {
			h.mu.Unlock()
			return total, &net.OpError{Op: "write", Net: "tcp", Err: syscall.EPIPE}
		}
		space := h.capacity - h.flightBytes - len(h.buf)
		if space <= 0 {
			dl := c.deadline(false)
			if !dl.IsZero() && !time.Now().Before(dl) {
				h.mu.Unlock()
				return total, &net.OpError{Op: "write", Net: "tcp", Err: os.ErrDeadlineExceeded}
			}
			w := h.wake
			h.mu.Unlock()
			waitOn(w, dl)
			continue
		}
		n := len(b)
		if n > space {
			n = space
		}
		chunk := b[:n]
		for len(chunk) > 0 {
			sz := len(chunk)
			if len(h.plan.SegSizes) > 0 {
				if s := h.plan.SegSizes[h.segIdx%len(h.plan.SegSizes)]; s > 0 && s < sz {
					sz = s
				}
			}
			var d time.Duration
			if len(h.plan.Delays) > 0 {
				d = h.plan.Delays[h.segIdx%len(h.plan.Delays)]
			}
			h.segIdx++
			h.flight = append(h.flight, seg{data: append([]byte(nil), chunk[:sz]...), delay: d})
			h.flightBytes += sz
			chunk = chunk[sz:]
		}
		h.broadcast()
		h.mu.Unlock()
		b = b[n:]
		total += n
	}
	return total, nil
}

// CloseWrite half-closes the connection (FIN after the queued data).
func (c *Conn) CloseWrite() error {
	h := c.out
	h.mu.Lock()
	if !h.finQueued {
		h.finQueued = true
		h.flight = append(h.flight, seg{fin: true})
		h.broadcast()
	}
	h.mu.Unlock()
	return nil
}

// Close closes this end: queued data is still delivered, then the peer reads
// EOF; the peer's writes fail from now on.
func (c *Conn) Close() error {
	if c.net != nil && c.net.GateOnClose {
		sim.Yield(sim.GateNet, "net.close")
	}
	c.mu.Lock()
	if c.closed {
		c.mu.Unlock()
		return net.ErrClosed
	}
	c.closed = true
	c.mu.Unlock()
	c.CloseWrite()
	h := c.in
	h.mu.Lock()
	h.readerGone = true
	h.buf = nil
	h.broadcast()
	h.mu.Unlock()
	c.reap()
	return nil
}

// reap stops the delivery goroutines once both ends are closed.
func (c *Conn) reap() {
	if c.isClosed() && c.peer.isClosed() {
		c.kill()
	}
}

func (c *Conn) kill() {
	for _, h := range []*half{c.in, c.out} {
		h.mu.Lock()
		h.dead = true
		h.broadcast()
		h.mu.Unlock()
	}
}

// Reset aborts the connection in both directions: both ends see
// ECONNRESET on their next read or write; buffered data is discarded.
func (c *Conn) Reset() {
	for _, h := range []*half{c.in, c.out} {
		h.mu.Lock()
		h.reset = true
		h.dead = true
		h.buf = nil
		h.flight = nil
		h.flightBytes = 0
		h.broadcast()
		h.mu.Unlock()
	}
}

// Blackhole silently drops everything sent in both directions from now on
// (peer vanished: only deadlines end the connection).
func (c *Conn) Blackhole() {
	for _, h := range []*half{c.in, c.out} {
		h.mu.Lock()
		h.blackholed = true
		h.broadcast()
		h.mu.Unlock()
	}
}

// Unread returns the number of delivered but unread bytes at this end.
func (c *Conn) Unread() int {
	c.in.mu.Lock()
	defer c.in.mu.Unlock()
	return len(c.in.buf)
}

func (c *Conn) SetDeadline(t time.Time) error {
	c.mu.Lock()
	c.rdl, c.wdl = t, t
	c.mu.Unlock()
	c.pokeBoth()
	return nil
}

func (c *Conn) SetReadDeadline(t time.Time) error {
	c.mu.Lock()
	c.rdl = t
	c.mu.Unlock()
	c.pokeBoth()
	return nil
}

func (c *Conn) SetWriteDeadline(t time.Time) error {
	c.mu.Lock()
	c.wdl = t
	c.mu.Unlock()
	c.pokeBoth()
	return nil
}

func (c *Conn) pokeBoth() {
	for _, h := range []*half{c.in, c.out} {
		h.mu.Lock()
		h.broadcast()
		h.mu.Unlock()
	}
}

// Shutdown resets every connection and closes every listener (end of a run).
func (n *Net) Shutdown() {
	n.mu.Lock()
	conns := n.conns
	n.conns = nil
	var ls []*Listener
	for _, l := range n.listeners {
		ls = append(ls, l)
	}
	n.mu.Unlock()
	for _, l := range ls {
		l.Close()
	}
	for _, c := range conns {
		c.Reset()
	}
}

// Conns returns all connection ends created so far.
func (n *Net) Conns() []*Conn {
	n.mu.Lock()
	defer n.mu.Unlock()
	return append([]*Conn(nil), n.conns...)
}

// ErrRefused reports whether err is a simulated "connection refused".
func ErrRefused(err error) bool { return errors.Is(err, syscall.ECONNREFUSED) }
