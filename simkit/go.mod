module verif/simkit

go 1.17
