//go:build go1.21

// Package simatomic is substituted for sync/atomic in instrumented copies of
// easegress source files: same semantics, plus a scheduler gate before each
// operation.
package simatomic

import (
	"sync/atomic"
	"unsafe"

	"verif/simkit/sim"
)

type (
	Bool    = atomic.Bool
	Int32   = atomic.Int32
	Int64   = atomic.Int64
	Uint32  = atomic.Uint32
	Uint64  = atomic.Uint64
	Uintptr = atomic.Uintptr
)

// Value is a gated atomic.Value.
type Value struct{ v atomic.Value }

func (v *Value) Load() interface{} {
	sim.Yield(sim.GateAtomic, "atomic.Value.Load")
	return v.v.Load()
}

func (v *Value) Store(x interface{}) {
	sim.Yield(sim.GateAtomic, "atomic.Value.Store")
	v.v.Store(x)
}

func (v *Value) Swap(x interface{}) interface{} {
	sim.Yield(sim.GateAtomic, "atomic.Value.Swap")
	return v.v.Swap(x)
}

func (v *Value) CompareAndSwap(old, new interface{}) bool {
	sim.Yield(sim.GateAtomic, "atomic.Value.CAS")
	return v.v.CompareAndSwap(old, new)
}

func g(site string) { sim.Yield(sim.GateAtomic, site) }

func AddInt32(p *int32, d int32) int32       { g("atomic.AddInt32"); return atomic.AddInt32(p, d) }
func AddInt64(p *int64, d int64) int64       { g("atomic.AddInt64"); return atomic.AddInt64(p, d) }
func AddUint32(p *uint32, d uint32) uint32   { g("atomic.AddUint32"); return atomic.AddUint32(p, d) }
func AddUint64(p *uint64, d uint64) uint64   { g("atomic.AddUint64"); return atomic.AddUint64(p, d) }
func LoadInt32(p *int32) int32               { g("atomic.LoadInt32"); return atomic.LoadInt32(p) }
func LoadInt64(p *int64) int64               { g("atomic.LoadInt64"); return atomic.LoadInt64(p) }
func LoadUint32(p *uint32) uint32            { g("atomic.LoadUint32"); return atomic.LoadUint32(p) }
func LoadUint64(p *uint64) uint64            { g("atomic.LoadUint64"); return atomic.LoadUint64(p) }
func StoreInt32(p *int32, v int32)           { g("atomic.StoreInt32"); atomic.StoreInt32(p, v) }
func StoreInt64(p *int64, v int64)           { g("atomic.StoreInt64"); atomic.StoreInt64(p, v) }
func StoreUint32(p *uint32, v uint32)        { g("atomic.StoreUint32"); atomic.StoreUint32(p, v) }
func StoreUint64(p *uint64, v uint64)        { g("atomic.StoreUint64"); atomic.StoreUint64(p, v) }
func SwapInt32(p *int32, v int32) int32      { g("atomic.SwapInt32"); return atomic.SwapInt32(p, v) }
func SwapInt64(p *int64, v int64) int64      { g("atomic.SwapInt64"); return atomic.SwapInt64(p, v) }
func SwapUint32(p *uint32, v uint32) uint32  { g("atomic.SwapUint32"); return atomic.SwapUint32(p, v) }
func SwapUint64(p *uint64, v uint64) uint64  { g("atomic.SwapUint64"); return atomic.SwapUint64(p, v) }
func CompareAndSwapInt32(p *int32, o, n int32) bool {
	g("atomic.CASInt32")
	return atomic.CompareAndSwapInt32(p, o, n)
}
func CompareAndSwapInt64(p *int64, o, n int64) bool {
	g("atomic.CASInt64")
	return atomic.CompareAndSwapInt64(p, o, n)
}
func CompareAndSwapUint32(p *uint32, o, n uint32) bool {
	g("atomic.CASUint32")
	return atomic.CompareAndSwapUint32(p, o, n)
}
func CompareAndSwapUint64(p *uint64, o, n uint64) bool {
	g("atomic.CASUint64")
	return atomic.CompareAndSwapUint64(p, o, n)
}
func LoadPointer(p *unsafe.Pointer) unsafe.Pointer { g("atomic.LoadPointer"); return atomic.LoadPointer(p) }
func StorePointer(p *unsafe.Pointer, v unsafe.Pointer) {
	g("atomic.StorePointer")
	atomic.StorePointer(p, v)
}
