//go:build go1.21

// Package simrand is substituted for math/rand in instrumented copies of
// easegress source files. Inside a simulation run every draw comes from the
// run's recorded tape (so it replays and shrinks); outside it falls through to
// math/rand.
package simrand

import (
	"math/rand"

	"verif/simkit/sim"
)

type (
	Rand   = rand.Rand
	Source = rand.Source
)

func New(src rand.Source) *rand.Rand  { return rand.New(src) }
func NewSource(seed int64) rand.Source { return rand.NewSource(seed) }

func Seed(seed int64) {
	if sim.Active() == nil {
		rand.Seed(seed)
	}
}

func Intn(n int) int {
	if n <= 0 {
		panic("invalid argument to Intn")
	}
	if r := sim.Active(); r != nil {
		return r.Intn(n)
	}
	return rand.Intn(n)
}

func Int63n(n int64) int64 {
	if n <= 0 {
		panic("invalid argument to Int63n")
	}
	if r := sim.Active(); r != nil {
		if n <= 1<<30 {
			return int64(r.Intn(int(n)))
		}
		hi := int64(r.Intn(1 << 30))
		lo := int64(r.Intn(1 << 30))
		return (hi<<30 | lo) % n
	}
	return rand.Int63n(n)
}

func Int31n(n int32) int32 { return int32(Int63n(int64(n))) }

func Int() int {
	if r := sim.Active(); r != nil {
		return r.Intn(1 << 30)
	}
	return rand.Int()
}

func Int63() int64 {
	if r := sim.Active(); r != nil {
		return int64(r.Intn(1<<30))<<30 | int64(r.Intn(1<<30))
	}
	return rand.Int63()
}

func Int31() int32 { return int32(Int63() >> 32) }

func Uint32() uint32 {
	if r := sim.Active(); r != nil {
		return uint32(r.Intn(1<<16))<<16 | uint32(r.Intn(1<<16))
	}
	return rand.Uint32()
}

func Uint64() uint64 { return uint64(Uint32())<<32 | uint64(Uint32()) }

func Float64() float64 {
	if r := sim.Active(); r != nil {
		return float64(r.Intn(1<<30)) / (1 << 30)
	}
	return rand.Float64()
}

func Float32() float32 { return float32(Float64()) }

func Perm(n int) []int {
	if r := sim.Active(); r != nil {
		p := make([]int, n)
		for i := range p {
			p[i] = i
		}
		for i := n - 1; i > 0; i-- {
			j := r.Intn(i + 1)
			p[i], p[j] = p[j], p[i]
		}
		return p
	}
	return rand.Perm(n)
}

func Shuffle(n int, swap func(i, j int)) {
	if r := sim.Active(); r != nil {
		for i := n - 1; i > 0; i-- {
			swap(i, r.Intn(i+1))
		}
		return
	}
	rand.Shuffle(n, swap)
}

func Read(p []byte) (int, error) {
	if r := sim.Active(); r != nil {
		for i := range p {
			p[i] = byte(r.Intn(256))
		}
		return len(p), nil
	}
	return rand.Read(p)
}
