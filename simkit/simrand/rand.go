//go:build go1.21

// Package simrand is substituted for math/rand in instrumented copies of
// easegress source files. Inside a simulation run every draw comes from the
// run's recorded tape (so it replays and shrinks); outside it falls through to
// math/rand.
package simrand

import (
	"math/rand"

	"verif/simkit/sim"
)

type (
	Rand   = rand.Rand
	Source = rand.Source
)

// ConcurrentUse is the panic value of a private generator that is entered by a
// second goroutine while a first one is still inside it.
const ConcurrentUse = "simrand: concurrent use of a *rand.Rand (not safe for concurrent use: the real generator's state gets corrupted, e.g. index out of range [-1] in math/rand.(*rngSource).Uint64)"

// New returns a private generator like math/rand.New. A *rand.Rand is
// documented as not safe for concurrent use, but what goes wrong happens inside
// the un-instrumented standard library, where the simulator never switches
// goroutines. So the source is wrapped with a sentinel: inside a run every draw
// (and Seed) marks the generator busy, passes a scheduler gate - so that another
// goroutine can be scheduled INSIDE the call - and only then delegates; a
// goroutine that finds the generator busy panics with ConcurrentUse, as the
// real runtime may. Code that serialises the use of its generator with an
// (instrumented) mutex or a channel never finds it busy. Outside a run the
// wrapper only delegates.
func New(src rand.Source) *rand.Rand {
	if _, ok := src.(*guardedSource); ok {
		return rand.New(src)
	}
	g := &guardedSource{src: src}
	g.s64, _ = src.(rand.Source64)
	return rand.New(g)
}

func NewSource(seed int64) rand.Source { return rand.NewSource(seed) }

type guardedSource struct {
	src  rand.Source
	s64  rand.Source64
	busy bool // plain: between two gates only one goroutine of a run executes
}

func (g *guardedSource) enter() bool {
	if sim.Active() == nil {
		return false
	}
	if g.busy {
		panic(ConcurrentUse)
	}
	g.busy = true
	sim.Yield(sim.GateUser, "rand.Rand")
	return true
}

func (g *guardedSource) Int63() int64 {
	in := g.enter()
	v := g.src.Int63()
	if in {
		g.busy = false
	}
	return v
}

func (g *guardedSource) Uint64() uint64 {
	in := g.enter()
	var v uint64
	if g.s64 != nil {
		v = g.s64.Uint64()
	} else {
		v = uint64(g.src.Int63())>>31 | uint64(g.src.Int63())<<32
	}
	if in {
		g.busy = false
	}
	return v
}

func (g *guardedSource) Seed(seed int64) {
	in := g.enter()
	g.src.Seed(seed)
	if in {
		g.busy = false
	}
}

func Seed(seed int64) {
	if sim.Active() == nil {
		rand.Seed(seed)
	}
}

func Intn(n int) int {
	if n <= 0 {
		panic("invalid argument to Intn")
	}
	if r := sim.Active(); r != nil {
		return r.Intn(n)
	}
	return rand.Intn(n)
}

func Int63n(n int64) int64 {
	if n <= 0 {
		panic("invalid argument to Int63n")
	}
	if r := sim.Active(); r != nil {
		if n <= 1<<30 {
			return int64(r.Intn(int(n)))
		}
		hi := int64(r.Intn(1 << 30))
		lo := int64(r.Intn(1 << 30))
		return (hi<<30 | lo) % n
	}
	return rand.Int63n(n)
}

func Int31n(n int32) int32 { return int32(Int63n(int64(n))) }

func Int() int {
	if r := sim.Active(); r != nil {
		return r.Intn(1 << 30)
	}
	return rand.Int()
}

func Int63() int64 {
	if r := sim.Active(); r != nil {
		return int64(r.Intn(1<<30))<<30 | int64(r.Intn(1<<30))
	}
	return rand.Int63()
}

func Int31() int32 { return int32(Int63() >> 32) }

func Uint32() uint32 {
	if r := sim.Active(); r != nil {
		return uint32(r.Intn(1<<16))<<16 | uint32(r.Intn(1<<16))
	}
	return rand.Uint32()
}

func Uint64() uint64 { return uint64(Uint32())<<32 | uint64(Uint32()) }

func Float64() float64 {
	if r := sim.Active(); r != nil {
		return float64(r.Intn(1<<30)) / (1 << 30)
	}
	return rand.Float64()
}

func Float32() float32 { return float32(Float64()) }

func Perm(n int) []int {
	if r := sim.Active(); r != nil {
		p := make([]int, n)
		for i := range p {
			p[i] = i
		}
		for i := n - 1; i > 0; i-- {
			j := r.Intn(i + 1)
			p[i], p[j] = p[j], p[i]
		}
		return p
	}
	return rand.Perm(n)
}

func Shuffle(n int, swap func(i, j int)) {
	if r := sim.Active(); r != nil {
		for i := n - 1; i > 0; i-- {
			swap(i, r.Intn(i+1))
		}
		return
	}
	rand.Shuffle(n, swap)
}

func Read(p []byte) (int, error) {
	if r := sim.Active(); r != nil {
		for i := range p {
			p[i] = byte(r.Intn(256))
		}
		return len(p), nil
	}
	return rand.Read(p)
}
