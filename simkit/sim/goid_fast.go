//go:build go1.21 && amd64

package sim

import (
	"unsafe"
)

func getg() unsafe.Pointer

// goidOffset is the offset of the goid field inside runtime.g, found by
// calibration at start-up (0 = not found: fall back to parsing the stack
// header). The field layout is an implementation detail of the toolchain, so
// nothing is assumed: several goroutines must agree on one offset.
var goidOffset uintptr

func init() {
	type sample struct {
		g  unsafe.Pointer
		id uint64
	}
	ch := make(chan sample, 4)
	for i := 0; i < 4; i++ {
		go func() { ch <- sample{getg(), goidSlow()} }()
	}
	var ss []sample
	ss = append(ss, sample{getg(), goidSlow()})
	for i := 0; i < 4; i++ {
		ss = append(ss, <-ch)
	}
	var found []uintptr
	for off := uintptr(0); off < 600; off += 8 {
		ok := true
		for _, s := range ss {
			if *(*uint64)(unsafe.Pointer(uintptr(s.g) + off)) != s.id {
				ok = false
				break
			}
		}
		if ok {
			found = append(found, off)
		}
	}
	if len(found) == 1 {
		goidOffset = found[0]
	}
}

func goid() uint64 {
	if goidOffset != 0 {
		return *(*uint64)(unsafe.Pointer(uintptr(getg()) + goidOffset))
	}
	return goidSlow()
}
