//go:build go1.21 && !amd64

package sim

func goid() uint64 { return goidSlow() }
