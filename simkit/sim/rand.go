package sim

// Rand is a tiny deterministic PRNG (splitmix64). Every random decision of the
// framework (scenario generation, schedule, faults) derives from one of these,
// seeded from VERIF_SEED; nothing reads math/rand's global source or a clock.
type Rand struct{ s uint64 }

// NewRand returns a generator for the given seed.
func NewRand(seed uint64) *Rand { return &Rand{s: seed} }

// Mix combines two integers into a well-distributed third (stream derivation).
func Mix(a, b uint64) uint64 {
	z := a*0x9E3779B97F4A7C15 + b + 0x632BE59BD9B4E019
	z = (z ^ (z >> 30)) * 0xBF58476D1CE4E5B9
	z = (z ^ (z >> 27)) * 0x94D049BB133111EB
	return z ^ (z >> 31)
}

// Uint64 returns the next 64 random bits.
func (r *Rand) Uint64() uint64 {
	r.s += 0x9E3779B97F4A7C15
	z := r.s
	z = (z ^ (z >> 30)) * 0xBF58476D1CE4E5B9
	z = (z ^ (z >> 27)) * 0x94D049BB133111EB
	return z ^ (z >> 31)
}

// Intn returns a number in [0,n). n<=0 yields 0.
func (r *Rand) Intn(n int) int {
	if n <= 1 {
		return 0
	}
	return int(r.Uint64() % uint64(n))
}

// Range returns a number in [lo,hi].
func (r *Rand) Range(lo, hi int) int {
	if hi <= lo {
		return lo
	}
	return lo + r.Intn(hi-lo+1)
}

// Float64 returns a number in [0,1).
func (r *Rand) Float64() float64 { return float64(r.Uint64()>>11) / (1 << 53) }

// Bool is true with probability p.
func (r *Rand) Bool(p float64) bool { return r.Float64() < p }

// Pick returns one of the given ints.
func (r *Rand) Pick(xs ...int) int { return xs[r.Intn(len(xs))] }

// PickStr returns one of the given strings.
func (r *Rand) PickStr(xs ...string) string { return xs[r.Intn(len(xs))] }

// Perm returns a random permutation of 0..n-1.
func (r *Rand) Perm(n int) []int {
	p := make([]int, n)
	for i := range p {
		p[i] = i
	}
	for i := n - 1; i > 0; i-- {
		j := r.Intn(i + 1)
		p[i], p[j] = p[j], p[i]
	}
	return p
}
