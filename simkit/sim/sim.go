//go:build go1.21

// Package sim is the core of the deterministic simulator: one Run is one
// testing/synctest bubble (virtual clock, quiescence detection) plus a seeded
// scheduler that decides, at every gate (Yield), which parked goroutine
// proceeds next or whether simulated time passes instead. All decisions are
// recorded on a tape; replaying the tape against the same scenario reproduces
// the execution exactly (the process must run with GOMAXPROCS=1).
package sim

import (
	"fmt"
	"runtime"
	"runtime/debug"
	"sort"
	"strings"
	"sync"
	"sync/atomic"
	"testing"
	"testing/synctest"
	"time"
)

// Gate classes. A run enables a random subset (swarm), so that both sparse and
// dense schedules are explored.
const (
	GateTask   = 1 << iota // harness task boundaries (always on)
	GateMutex              // simsync.Mutex / RWMutex / Once
	GateAtomic             // simatomic operations
	GateMap                // simsync.Map operations
	GateNet                // simnet deliveries
	GateUser               // explicit harness yields inside callbacks
	GateGo                 // start of goroutines launched by `go` statements in files opted in with "go_gates"
	GateStmt               // between the statements of functions in files opted in with "stmt_gates" (on in a quarter of the runs)
	GateAll    = GateTask | GateMutex | GateAtomic | GateMap | GateNet | GateUser | GateGo
)

const stallFlag = 0x80000000

var stallDurations = []time.Duration{
	time.Microsecond, 100 * time.Microsecond, time.Millisecond, 10 * time.Millisecond,
	100 * time.Millisecond, time.Second, 10 * time.Second, 60 * time.Second,
}

// Options configure one run.
type Options struct {
	Seed     uint64   // schedule stream seed (ignored for decisions covered by Tape)
	Tape     []uint32 // decisions to replay; after its end: oldest-first, no stalls
	Replay   bool     // true: never draw from the PRNG (pure function of scenario+tape)
	MaxSteps int      // abort (outcome "steplimit") after this many scheduling steps
	KeepLog  int      // number of events kept verbatim (all are hashed)
	TraceSteps bool   // also log every scheduling step
}

// Violation is one oracle failure.
type Violation struct {
	Class string `json:"class"`
	Msg   string `json:"msg"`
	Step  int    `json:"step"`
	AtNs  int64  `json:"at_ns"`
}

// Result is what a run reports.
type Result struct {
	Outcome    string         `json:"outcome"` // ok | violation | steplimit | deadlock | harness-error
	Violations []Violation    `json:"violations,omitempty"`
	Steps      int            `json:"steps"`
	Stalls     int            `json:"stalls"`
	SimNs      int64          `json:"sim_ns"`
	Hash       string         `json:"hash"`
	Tape       []uint32       `json:"-"`
	Probes     map[string]int `json:"probes,omitempty"`
	Faults     map[string]int `json:"faults,omitempty"`
	Nontrivial bool           `json:"nontrivial"`
	Sig        string         `json:"sig,omitempty"` // harness-defined signature of the state/history reached
	Log        []string       `json:"-"`
	Detail     string         `json:"detail,omitempty"`
	Leftover   bool           `json:"leftover,omitempty"`
	Strategy   string         `json:"strategy,omitempty"`
}

type waiter struct {
	ch   chan struct{}
	site string
	seq  uint64
	name string // logical goroutine name (canonical ordering key)
}

// goid returns the runtime id of the calling goroutine (parsed from the
// header line of its stack dump).
func goidSlow() uint64 {
	var buf [40]byte
	n := runtime.Stack(buf[:], false)
	// "goroutine 123 [running]:"
	var id uint64
	for i := len("goroutine "); i < n; i++ {
		c := buf[i]
		if c < '0' || c > '9' {
			break
		}
		id = id*10 + uint64(c-'0')
	}
	return id
}

// parentOf returns (creator function, parent goid) of the calling goroutine
// from the "created by F in goroutine N" trailer of its full stack dump.
func parentOf() (string, uint64) {
	buf := make([]byte, 16<<10)
	n := runtime.Stack(buf, false)
	s := string(buf[:n])
	i := strings.LastIndex(s, "created by ")
	if i < 0 {
		return "", 0
	}
	line := s[i+len("created by "):]
	if j := strings.IndexByte(line, '\n'); j >= 0 {
		line = line[:j]
	}
	fn := line
	var pid uint64
	if j := strings.Index(line, " in goroutine "); j >= 0 {
		fn = line[:j]
		for _, c := range line[j+len(" in goroutine "):] {
			if c < '0' || c > '9' {
				break
			}
			pid = pid*10 + uint64(c-'0')
		}
	}
	return fn, pid
}

// nameOf returns the logical name of the calling goroutine: the task name for
// harness tasks, otherwise parent name + creator function + ordinal. Called
// with r.mu held.
func (r *Run) nameOf() string {
	id := goid()
	if n, ok := r.names[id]; ok {
		return n
	}
	fn, pid := parentOf()
	pn, ok := r.names[pid]
	if !ok {
		pn = "?"
	}
	key := pn + ">" + fn
	r.children[key]++
	n := fmt.Sprintf("%s#%d", key, r.children[key])
	r.names[id] = n
	return n
}

// Run is the state of one simulated execution.
type Run struct {
	opt   Options
	rng   *Rand
	start time.Time

	mu       sync.Mutex // real mutex; guards everything below; never held while blocking
	parked   []*waiter
	seq      uint64
	wake     chan struct{}
	mainDone bool
	finished atomic.Bool
	aborted  bool

	tapeIn  []uint32
	tapePos int
	tapeOut []uint32

	gates     int
	strategy  int
	stickyP   int // percent
	lastName  string
	rtSeed    uint64
	stallPct  int // percent chance per step (while budget lasts)
	stallLeft int

	steps     int
	stalls    int
	stalledNs int64
	hash   uint64
	log    []string
	nlog   int

	violations []Violation
	probes     map[string]int
	faults     map[string]int
	nontrivial bool
	sig        string
	invariant  func() string

	names    map[uint64]string
	children map[string]int
	tasks    sync.WaitGroup
	simNsVal int64

	// MultiClass keeps violations after the first one of a run (used by
	// harnesses in which a known finding would otherwise mask other classes).
	MultiClass bool

	// Deadlock, when non-empty, makes a bubble deadlock before the harness
	// main returned a violation of that class instead of a harness error.
	Deadlock string
}

var cur atomic.Pointer[Run]

// RuntimeSeedHook, when set (binaries built with the Go runtime overlay, tag
// verifrt), receives the per-run seed of the patched runtime's generator for
// select order and map iteration of goroutines inside the bubble, and 0 at the
// end of the run. TapeHeader is the number of knob entries at the head of a tape.
var RuntimeSeedHook func(seed uint64)

const TapeHeader = 5

// Active returns the current run if gating is active in it, else nil.
func Active() *Run {
	r := cur.Load()
	if r == nil || r.finished.Load() {
		return nil
	}
	return r
}

// CurrentName returns the canonical name of the calling goroutine ("" outside a run).
func CurrentName() string {
	r := Active()
	if r == nil {
		return ""
	}
	r.mu.Lock()
	defer r.mu.Unlock()
	return r.nameOf()
}

// NameGoroutine gives the calling goroutine the canonical name base#k (k counts
// the goroutines named from this base) unless it has a name already. Simulated
// components use it where the identity of a goroutine follows from an object
// with a reproducible identity (simnet: the goroutine serving an accepted
// connection is named after the dialler), instead of from the order in which
// sibling goroutines happen to reach their first gate.
func NameGoroutine(base string) {
	r := Active()
	if r == nil {
		return
	}
	id := goid()
	r.mu.Lock()
	if _, ok := r.names[id]; !ok {
		r.children[base]++
		r.names[id] = fmt.Sprintf("%s#%d", base, r.children[base])
	}
	r.mu.Unlock()
}

// Current returns the current run, also during its wind-down phase.
func Current() *Run { return cur.Load() }

// Yield is a gate: the calling goroutine parks until the scheduler releases
// it. Outside a run it returns at once.
func Yield(class int, site string) {
	r := Active()
	if r == nil {
		return
	}
	r.yield(class, site)
}

func (r *Run) yield(class int, site string) {
	if r.gates&class == 0 {
		// not a scheduling point in this run, but the goroutine still gets its
		// canonical name here: goroutines it starts derive their names from it
		// (a nameless parent makes its children indistinguishable: "?>f#n")
		id := goid()
		r.mu.Lock()
		if _, ok := r.names[id]; !ok && !r.finished.Load() {
			r.nameOf()
		}
		r.mu.Unlock()
		return
	}
	w := &waiter{ch: make(chan struct{}), site: site}
	r.mu.Lock()
	if r.finished.Load() {
		r.mu.Unlock()
		return
	}
	r.seq++
	w.seq = r.seq
	w.name = r.nameOf()
	// keep the parked list in canonical (name) order: the order in which
	// simultaneously woken goroutines reach their gates is not reproducible
	// (timer heap ties), the set of parked goroutines is.
	i := sort.Search(len(r.parked), func(i int) bool { return r.parked[i].name > w.name })
	r.parked = append(r.parked, nil)
	copy(r.parked[i+1:], r.parked[i:])
	r.parked[i] = w
	r.mu.Unlock()
	select {
	case r.wake <- struct{}{}:
	default:
	}
	<-w.ch
}

// Yield is the method form, for harness code (class GateUser).
func (r *Run) Yield(site string) { r.yield(GateUser, site) }

// decide returns a number in [0,n) (or, if stallOK, possibly a stall marker)
// from the tape or the strategy, and records it.
func (r *Run) draw(n int) uint32 {
	if r.tapePos < len(r.tapeIn) {
		v := r.tapeIn[r.tapePos]
		r.tapePos++
		return v
	}
	r.tapePos++
	if r.opt.Replay {
		return 0
	}
	return uint32(r.rng.Uint64() % uint64(n))
}

// Intn is the run's recorded source of randomness for production code
// (simrand) and for simulated components (simnet). It is part of the tape.
func (r *Run) Intn(n int) int {
	if n <= 1 {
		return 0
	}
	r.mu.Lock()
	v := r.draw(n) &^ stallFlag
	v %= uint32(n)
	r.tapeOut = append(r.tapeOut, v)
	r.hashStr("rand")
	r.hashInt(uint64(v))
	r.mu.Unlock()
	return int(v)
}

// pick chooses the next action with r.mu held: index into parked, or -1 and a
// stall duration.
func (r *Run) pick() (int, time.Duration) {
	n := len(r.parked)
	var v uint32
	if r.tapePos < len(r.tapeIn) || r.opt.Replay {
		v = r.draw(n)
	} else {
		r.tapePos++
		// generation mode: the strategy shapes the distribution
		if r.stallLeft > 0 && r.rng.Intn(100) < r.stallPct {
			r.stallLeft--
			v = stallFlag | uint32(r.rng.Intn(len(stallDurations)))
		} else {
			switch r.strategy {
			case 0: // uniform
				v = uint32(r.rng.Intn(n))
			case 1: // sticky: keep running the goroutine released last, if it is parked again
				v = uint32(r.rng.Intn(n))
				if r.rng.Intn(100) < r.stickyP {
					for i, w := range r.parked {
						if w.name == r.lastName {
							v = uint32(i)
						}
					}
				}
			default: // round-robin over goroutine names with random preemptions
				v = uint32(r.rng.Intn(n))
				if r.rng.Intn(100) < r.stickyP {
					v = 0
					for i, w := range r.parked {
						if w.name > r.lastName {
							v = uint32(i)
							break
						}
					}
				}
			}
		}
	}
	if v&stallFlag != 0 {
		d := stallDurations[int(v&^stallFlag)%len(stallDurations)]
		r.tapeOut = append(r.tapeOut, stallFlag|(v&^stallFlag)%uint32(len(stallDurations)))
		return -1, d
	}
	i := int(v % uint32(n))
	r.tapeOut = append(r.tapeOut, uint32(i))
	return i, 0
}

func (r *Run) hashStr(s string) {
	for i := 0; i < len(s); i++ {
		r.hash = (r.hash ^ uint64(s[i])) * 1099511628211
	}
	r.hash = (r.hash ^ 0xff) * 1099511628211
}

func (r *Run) hashInt(v uint64) {
	for i := 0; i < 8; i++ {
		r.hash = (r.hash ^ (v & 0xff)) * 1099511628211
		v >>= 8
	}
}

// Eventf records an observable event: it is hashed into the trace hash and
// the first KeepLog events are kept verbatim for replay files and samples.
func (r *Run) Eventf(format string, a ...interface{}) {
	s := fmt.Sprintf(format, a...)
	r.mu.Lock()
	r.hashStr(s)
	if r.nlog < r.opt.KeepLog {
		r.log = append(r.log, fmt.Sprintf("[%d %s] %s", r.steps, r.sinceLocked(), s))
	}
	r.nlog++
	r.mu.Unlock()
}

func (r *Run) sinceLocked() time.Duration { return time.Since(r.start) }

// Now returns the simulated time elapsed since the start of the run.
func (r *Run) Now() time.Duration { return time.Since(r.start) }

// StalledFor returns the total virtual time the scheduler has let pass with
// tasks parked at gates (stall decisions) so far: an upper bound on how much a
// measured duration may have been inflated by scheduling alone.
func (r *Run) StalledFor() time.Duration {
	r.mu.Lock()
	defer r.mu.Unlock()
	return time.Duration(r.stalledNs)
}

// Step returns the global scheduling step number (a total order on events).
func (r *Run) Step() int {
	r.mu.Lock()
	defer r.mu.Unlock()
	return r.steps
}

// Seq returns a fresh, strictly increasing event sequence number.
func (r *Run) Seq() uint64 {
	r.mu.Lock()
	defer r.mu.Unlock()
	r.seq++
	return r.seq
}

// Violate records an oracle failure. The first one decides the class.
func (r *Run) Violate(class, format string, a ...interface{}) {
	msg := fmt.Sprintf(format, a...)
	r.mu.Lock()
	if len(r.violations) < 20 && (r.MultiClass || len(r.violations) == 0) {
		r.violations = append(r.violations, Violation{Class: class, Msg: msg, Step: r.steps, AtNs: int64(time.Since(r.start))})
	}
	r.mu.Unlock()
}

// Violated tells whether a violation has been recorded.
func (r *Run) Violated() bool {
	r.mu.Lock()
	defer r.mu.Unlock()
	return len(r.violations) > 0
}

// Probe counts a named rare condition.
func (r *Run) Probe(name string) {
	r.mu.Lock()
	r.probes[name]++
	r.mu.Unlock()
}

// Fault counts an injected fault that actually fired.
func (r *Run) Fault(kind string) {
	r.mu.Lock()
	r.faults[kind]++
	r.mu.Unlock()
}

// Nontrivial marks the run as non-trivial by the harness's stated rule.
func (r *Run) Nontrivial() { r.mu.Lock(); r.nontrivial = true; r.mu.Unlock() }

// SetSig sets the harness-defined signature used to count distinct cases.
func (r *Run) SetSig(s string) { r.mu.Lock(); r.sig = s; r.mu.Unlock() }

// SetInvariant installs a function evaluated at every quiescent point; a
// non-empty return is a violation "class: message".
func (r *Run) SetInvariant(f func() string) { r.mu.Lock(); r.invariant = f; r.mu.Unlock() }

// Go starts a harness task inside the bubble. Its start is a gate, so the
// order in which tasks begin is a scheduler decision. A panic escaping f is a
// violation of class "panic".
func (r *Run) Go(name string, f func()) {
	r.tasks.Add(1)
	go func() {
		defer r.tasks.Done()
		defer func() {
			if p := recover(); p != nil {
				r.Violate("panic", "task %s: %v\n%s", name, p, shortStack())
			}
		}()
		r.mu.Lock()
		r.names[goid()] = name
		r.mu.Unlock()
		r.yield(GateTask, "start:"+name)
		f()
	}()
}

// Sleep lets simulated time pass for the calling task and then passes a gate,
// so that tasks waking at the same instant continue in a scheduler-chosen
// (reproducible) order.
func (r *Run) Sleep(d time.Duration) {
	if d > 0 {
		time.Sleep(d)
	}
	r.yield(GateTask, "wake")
}

// WaitTasks blocks until all tasks started with Go have returned.
func (r *Run) WaitTasks() { r.tasks.Wait() }

// Aborted reports whether the run hit its step limit (tasks should wind down).
func (r *Run) Aborted() bool { r.mu.Lock(); defer r.mu.Unlock(); return r.aborted }

func shortStack() string {
	s := string(debug.Stack())
	lines := strings.Split(s, "\n")
	var out []string
	for _, l := range lines {
		if strings.Contains(l, "runtime/debug") || strings.Contains(l, "simkit/sim.") {
			continue
		}
		out = append(out, l)
		if len(out) > 24 {
			break
		}
	}
	return strings.Join(out, "\n")
}

// Execute runs main inside a fresh bubble under the seeded scheduler.
func Execute(t *testing.T, o Options, main func(r *Run)) (res *Result) {
	if o.MaxSteps == 0 {
		o.MaxSteps = 200000
	}
	r := &Run{opt: o, rng: NewRand(Mix(o.Seed, 0x5ced)), probes: map[string]int{}, faults: map[string]int{}, hash: 14695981039346656037,
		names: map[uint64]string{}, children: map[string]int{}}
	r.tapeIn = o.Tape
	if prev := cur.Load(); prev != nil && !prev.finished.Load() {
		panic("sim: nested or concurrent runs are not supported")
	}
	var bubblePanic interface{}
	func() {
		defer func() { bubblePanic = recover() }()
		synctest.Test(t, func(t *testing.T) {
			r.start = time.Now()
			r.wake = make(chan struct{}, 1)
			r.configure()
			if RuntimeSeedHook != nil {
				RuntimeSeedHook(r.rtSeed)
			}
			cur.Store(r)
			go func() {
				defer func() {
					if p := recover(); p != nil {
						r.Violate("panic", "main: %v\n%s", p, shortStack())
					}
					r.mu.Lock()
					r.mainDone = true
					r.mu.Unlock()
					select {
					case r.wake <- struct{}{}:
					default:
					}
				}()
				r.mu.Lock()
				r.names[goid()] = "main"
				r.mu.Unlock()
				main(r)
			}()
			r.loop()
			r.release()
			synctest.Wait()
		})
	}()
	r.finished.Store(true)
	cur.Store(nil)
	if RuntimeSeedHook != nil {
		RuntimeSeedHook(0)
	}

	res = &Result{Steps: r.steps, Stalls: r.stalls, Tape: r.tapeOut, Probes: r.probes, Faults: r.faults,
		Nontrivial: r.nontrivial, Sig: r.sig, Log: r.log, Violations: r.violations,
		Hash: fmt.Sprintf("%016x", r.hash), Strategy: r.strategyName()}
	res.SimNs = r.simNsVal
	r.mu.Lock()
	mainDone, aborted := r.mainDone, r.aborted
	r.mu.Unlock()
	switch {
	case aborted:
		res.Outcome = "steplimit"
	case bubblePanic != nil && !mainDone:
		msg := fmt.Sprint(bubblePanic)
		if strings.Contains(msg, "deadlock") {
			if r.Deadlock != "" {
				res.Violations = append(res.Violations, Violation{Class: r.Deadlock, Msg: "no goroutine can make progress and no timer is pending: " + msg + "\nparked: " + r.parkedSites(), Step: r.steps})
			} else {
				res.Outcome = "deadlock"
				res.Detail = msg + " parked: " + r.parkedSites()
			}
		} else {
			res.Outcome = "harness-error"
			res.Detail = msg
		}
	case bubblePanic != nil:
		// main finished; goroutines were left behind (tickers, readers...).
		res.Leftover = true
	}
	if len(res.Violations) > 0 && res.Outcome != "harness-error" {
		res.Outcome = "violation"
	}
	if res.Outcome == "" {
		res.Outcome = "ok"
	}
	return res
}

func (r *Run) parkedSites() string {
	r.mu.Lock()
	defer r.mu.Unlock()
	var s []string
	for _, w := range r.parked {
		s = append(s, w.site)
	}
	sort.Strings(s)
	return strings.Join(s, ",")
}

func (r *Run) strategyName() string {
	return []string{"uniform", "sticky", "roundrobin"}[r.strategy%3] + fmt.Sprintf("/stall%d", r.stallPct)
}

// configure draws the swarm knobs of the schedule. They are recorded at the
// head of the tape so that a replay uses the same ones.
func (r *Run) configure() {
	r.mu.Lock()
	defer r.mu.Unlock()
	knob := func(n int) int {
		v := r.draw(n) &^ stallFlag
		v %= uint32(n)
		r.tapeOut = append(r.tapeOut, v)
		return int(v)
	}
	// gate subset: all gates in half of the runs, random subsets otherwise
	g := knob(16)
	switch {
	case g < 8:
		r.gates = GateAll
	default:
		r.gates = GateTask | GateUser | GateNet
		if g&1 != 0 {
			r.gates |= GateMutex
		}
		if g&2 != 0 {
			r.gates |= GateAtomic
		}
		if g&4 != 0 {
			r.gates |= GateMap
		}
		if g >= 12 {
			r.gates |= GateGo
		}
	}
	// statement gates multiply the number of steps: only every fourth run
	if g%4 == 3 {
		r.gates |= GateStmt
	}
	r.strategy = knob(3)
	r.stickyP = []int{50, 75, 90, 97}[knob(4)]
	st := knob(6)
	switch st {
	case 0, 1:
		r.stallPct, r.stallLeft = 0, 0
	case 2:
		r.stallPct, r.stallLeft = 1, 2
	case 3:
		r.stallPct, r.stallLeft = 3, 5
	case 4:
		r.stallPct, r.stallLeft = 10, 8
	default:
		r.stallPct, r.stallLeft = 25, 20
	}
	// seed of the patched runtime's select / map-iteration generator (only
	// effective in binaries built with the runtime overlay)
	r.rtSeed = uint64(knob(1<<30)) | 1
}

// loop is the scheduler; it runs on the bubble's root goroutine.
func (r *Run) loop() {
	for {
		synctest.Wait()
		r.mu.Lock()
		inv := r.invariant
		r.mu.Unlock()
		if inv != nil {
			if msg := inv(); msg != "" {
				cls := "invariant"
				if i := strings.Index(msg, ": "); i > 0 && i < 48 {
					cls, msg = msg[:i], msg[i+2:]
				}
				r.Violate(cls, "%s", msg)
				r.mu.Lock()
				r.invariant = nil
				r.mu.Unlock()
			}
		}
		r.mu.Lock()
		if r.mainDone {
			r.simNsVal = int64(time.Since(r.start))
			r.mu.Unlock()
			return
		}
		n := len(r.parked)
		if n == 0 {
			r.mu.Unlock()
			<-r.wake // time may pass: every goroutine is durably blocked
			continue
		}
		if r.steps >= r.opt.MaxSteps {
			r.aborted = true
			r.simNsVal = int64(time.Since(r.start))
			r.mu.Unlock()
			return
		}
		i, d := r.pick()
		if i < 0 {
			r.stalls++
			r.stalledNs += int64(d)
			r.steps++
			r.hashStr("stall")
			r.hashInt(uint64(d))
			r.mu.Unlock()
			time.Sleep(d)
			continue
		}
		w := r.parked[i]
		if r.opt.TraceSteps && r.nlog < r.opt.KeepLog {
			var sites []string
			for _, x := range r.parked {
				sites = append(sites, x.name+"@"+x.site)
			}
			r.log = append(r.log, fmt.Sprintf("[%d %s] pick %d of %v", r.steps, time.Since(r.start), i, sites))
			r.nlog++
		}
		r.parked = append(r.parked[:i], r.parked[i+1:]...)
		r.steps++
		r.lastName = w.name
		r.hashStr(w.site)
		r.hashStr(w.name)
		r.hashInt(uint64(i))
		r.mu.Unlock()
		close(w.ch)
	}
}

// release ends gating and lets every parked goroutine run to completion.
func (r *Run) release() {
	r.mu.Lock()
	r.finished.Store(true)
	ws := r.parked
	r.parked = nil
	r.mu.Unlock()
	for _, w := range ws {
		close(w.ch)
	}
}
