#include "textflag.h"

// func getg() unsafe.Pointer
TEXT ·getg(SB),NOSPLIT,$0-8
	MOVQ (TLS), AX
	MOVQ AX, ret+0(FP)
	RET
