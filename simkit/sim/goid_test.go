//go:build go1.21

package sim

import "testing"

func TestGoidCalibration(t *testing.T) {
	t.Logf("goidOffset=%d", goidOffset)
	done := make(chan bool)
	for i := 0; i < 8; i++ {
		go func() { done <- goid() == goidSlow() }()
	}
	for i := 0; i < 8; i++ {
		if !<-done {
			t.Fatal("fast goid disagrees with the stack header")
		}
	}
	if goid() != goidSlow() {
		t.Fatal("fast goid disagrees with the stack header")
	}
}

func BenchmarkGoid(b *testing.B) {
	for i := 0; i < b.N; i++ {
		goid()
	}
}

func BenchmarkGoidSlow(b *testing.B) {
	for i := 0; i < b.N; i++ {
		goidSlow()
	}
}
