//go:build go1.21

// Package simsync is substituted for package sync in instrumented copies of
// easegress source files. Its primitives have sync's semantics, but blocking
// is done on channels (durable under testing/synctest, so a goroutine may be
// parked inside a critical section) and every acquisition is a scheduler gate.
// Outside a simulation run the gates are no-ops and the primitives are plain
// channel-based locks.
package simsync

import (
	"fmt"
	"sort"
	"sync"
	"time"

	"verif/simkit/sim"
)

// Aliases for the parts of sync that block durably inside a bubble already.
type (
	WaitGroup = sync.WaitGroup
	Pool      = sync.Pool
	Locker    = sync.Locker
)

// Mutex is a simulated sync.Mutex.
type Mutex struct {
	g       sync.Mutex
	locked  bool
	waiters []*mwaiter
}

type mwaiter struct {
	ch      chan struct{}
	since   time.Time
	granted bool
}

// starvation is the waiting time after which Unlock hands the mutex directly
// to the longest waiter, like sync.Mutex's starvation mode (1 ms): without it a
// goroutine that re-locks in a loop could keep a waiter out for ever under
// schedules that always prefer it.
const starvation = time.Millisecond

// Lock acquires the mutex; the attempt is a gate.
func (m *Mutex) Lock() {
	sim.Yield(sim.GateMutex, "mutex.Lock")
	var since time.Time
	for {
		m.g.Lock()
		if !m.locked {
			m.locked = true
			m.g.Unlock()
			return
		}
		if since.IsZero() {
			since = time.Now()
		}
		w := &mwaiter{ch: make(chan struct{}), since: since}
		m.waiters = append(m.waiters, w)
		m.g.Unlock()
		<-w.ch
		if w.granted {
			return
		}
		sim.Yield(sim.GateMutex, "mutex.wake")
	}
}

// TryLock tries to acquire the mutex without blocking.
func (m *Mutex) TryLock() bool {
	sim.Yield(sim.GateMutex, "mutex.TryLock")
	m.g.Lock()
	defer m.g.Unlock()
	if m.locked {
		return false
	}
	m.locked = true
	return true
}

// Unlock releases the mutex and wakes all waiters (the scheduler decides who
// wins), unless the longest waiter is starving: then it gets the mutex.
func (m *Mutex) Unlock() {
	m.g.Lock()
	if !m.locked {
		m.g.Unlock()
		panic("sync: unlock of unlocked mutex")
	}
	if len(m.waiters) > 0 && time.Since(m.waiters[0].since) >= starvation {
		w := m.waiters[0]
		m.waiters = m.waiters[1:]
		w.granted = true // ownership passes on, m.locked stays true
		m.g.Unlock()
		close(w.ch)
		return
	}
	m.locked = false
	ws := m.waiters
	m.waiters = nil
	m.g.Unlock()
	for _, w := range ws {
		close(w.ch)
	}
}

// RWMutex is a simulated sync.RWMutex. Like the real one it does not admit new
// readers while a writer is waiting (so a goroutine that takes the read lock
// twice deadlocks when a writer arrives in between, as it does in production);
// among compatible waiters the scheduler decides who goes next.
type RWMutex struct {
	g              sync.Mutex
	writer         bool
	readers        int
	writersWaiting int
	waiters        []chan struct{}
}

func (m *RWMutex) wait() {
	ch := make(chan struct{})
	m.waiters = append(m.waiters, ch)
	m.g.Unlock()
	<-ch
	sim.Yield(sim.GateMutex, "rwmutex.wake")
}

func (m *RWMutex) wakeAll() {
	ws := m.waiters
	m.waiters = nil
	m.g.Unlock()
	for _, ch := range ws {
		close(ch)
	}
}

// Lock acquires the write lock.
func (m *RWMutex) Lock() {
	sim.Yield(sim.GateMutex, "rwmutex.Lock")
	waiting := false
	for {
		m.g.Lock()
		if !m.writer && m.readers == 0 {
			m.writer = true
			if waiting {
				m.writersWaiting--
			}
			m.g.Unlock()
			return
		}
		if !waiting {
			waiting = true
			m.writersWaiting++
		}
		m.wait()
	}
}

// Unlock releases the write lock.
func (m *RWMutex) Unlock() {
	m.g.Lock()
	if !m.writer {
		m.g.Unlock()
		panic("sync: Unlock of unlocked RWMutex")
	}
	m.writer = false
	m.wakeAll()
}

// RLock acquires a read lock.
func (m *RWMutex) RLock() {
	sim.Yield(sim.GateMutex, "rwmutex.RLock")
	for {
		m.g.Lock()
		if !m.writer && m.writersWaiting == 0 {
			m.readers++
			m.g.Unlock()
			return
		}
		m.wait()
	}
}

// RUnlock releases a read lock.
func (m *RWMutex) RUnlock() {
	m.g.Lock()
	if m.readers <= 0 {
		m.g.Unlock()
		panic("sync: RUnlock of unlocked RWMutex")
	}
	m.readers--
	m.wakeAll()
}

// RLocker returns a Locker for the read side.
func (m *RWMutex) RLocker() sync.Locker { return (*rlocker)(m) }

type rlocker RWMutex

func (r *rlocker) Lock()   { (*RWMutex)(r).RLock() }
func (r *rlocker) Unlock() { (*RWMutex)(r).RUnlock() }

// Once is a simulated sync.Once.
type Once struct {
	m    Mutex
	done bool
}

// Do calls f exactly once.
func (o *Once) Do(f func()) {
	o.m.Lock()
	defer o.m.Unlock()
	if !o.done {
		defer func() { o.done = true }()
		f()
	}
}

// Map wraps sync.Map: each operation is a gate and Range visits the entries
// in an order that is a function of the run (sorted by printed key, then
// rotated by a recorded random number) instead of the runtime's hash order.
type Map struct {
	m sync.Map
}

func (m *Map) Load(key interface{}) (interface{}, bool) {
	sim.Yield(sim.GateMap, "map.Load")
	return m.m.Load(key)
}

func (m *Map) Store(key, value interface{}) {
	sim.Yield(sim.GateMap, "map.Store")
	m.m.Store(key, value)
}

func (m *Map) LoadOrStore(key, value interface{}) (interface{}, bool) {
	sim.Yield(sim.GateMap, "map.LoadOrStore")
	return m.m.LoadOrStore(key, value)
}

func (m *Map) LoadAndDelete(key interface{}) (interface{}, bool) {
	sim.Yield(sim.GateMap, "map.LoadAndDelete")
	return m.m.LoadAndDelete(key)
}

func (m *Map) Delete(key interface{}) {
	sim.Yield(sim.GateMap, "map.Delete")
	m.m.Delete(key)
}

func (m *Map) Swap(key, value interface{}) (interface{}, bool) {
	sim.Yield(sim.GateMap, "map.Swap")
	return m.m.Swap(key, value)
}

func (m *Map) CompareAndSwap(key, old, new interface{}) bool {
	sim.Yield(sim.GateMap, "map.CompareAndSwap")
	return m.m.CompareAndSwap(key, old, new)
}

func (m *Map) CompareAndDelete(key, old interface{}) bool {
	sim.Yield(sim.GateMap, "map.CompareAndDelete")
	return m.m.CompareAndDelete(key, old)
}

type kv struct {
	ks   string
	k, v interface{}
}

// Range calls f for each entry present at the time of the call, in a
// run-determined order; like sync.Map.Range it tolerates concurrent changes
// (an entry deleted meanwhile is skipped).
func (m *Map) Range(f func(key, value interface{}) bool) {
	sim.Yield(sim.GateMap, "map.Range")
	var all []kv
	m.m.Range(func(k, v interface{}) bool {
		all = append(all, kv{fmt.Sprint(k), k, v})
		return true
	})
	sort.SliceStable(all, func(i, j int) bool { return all[i].ks < all[j].ks })
	if r := sim.Active(); r != nil && len(all) > 1 {
		rot := r.Intn(len(all))
		all = append(all[rot:], all[:rot]...)
	}
	for _, e := range all {
		v, ok := m.m.Load(e.k)
		if !ok {
			continue
		}
		if !f(e.k, v) {
			return
		}
	}
}

// Keys returns the keys of a Go map in a run-determined order (sorted by
// printed form, then rotated by a recorded random number). Used by simgen's
// rewrite of `for k := range m`.
func SortedRotate(keys []string) []int {
	idx := make([]int, len(keys))
	for i := range idx {
		idx[i] = i
	}
	sort.SliceStable(idx, func(a, b int) bool { return keys[idx[a]] < keys[idx[b]] })
	if r := sim.Active(); r != nil && len(idx) > 1 {
		rot := r.Intn(len(idx))
		idx = append(idx[rot:], idx[:rot]...)
	}
	return idx
}

// MapKeys returns the keys of a Go map in a run-determined order: sorted by
// printed form, then rotated by a recorded random number. simgen rewrites
// `for k, v := range m` over maps into a loop over MapKeys(m), so that the
// iteration order is a seeded, replayable choice instead of the runtime's
// per-process hash seed.
func MapKeys[M ~map[K]V, K comparable, V any](m M) []K {
	keys := make([]K, 0, len(m))
	strs := make([]string, 0, len(m))
	for k := range m {
		keys = append(keys, k)
		strs = append(strs, fmt.Sprint(k))
	}
	idx := SortedRotate(strs)
	out := make([]K, len(keys))
	for i, j := range idx {
		out[i] = keys[j]
	}
	return out
}

// Pair is one map entry.
type Pair[K comparable, V any] struct {
	K K
	V V
}

// MapPairs snapshots a map in MapKeys order (used when the ranged expression
// may have side effects and therefore must be evaluated once).
func MapPairs[M ~map[K]V, K comparable, V any](m M) []Pair[K, V] {
	keys := MapKeys(m)
	out := make([]Pair[K, V], len(keys))
	for i, k := range keys {
		out[i] = Pair[K, V]{k, m[k]}
	}
	return out
}

// SelectStart returns the case a determinised select polls first (recorded on
// the tape inside a run, 0 outside).
func SelectStart(n int) int {
	if r := sim.Active(); r != nil && n > 1 {
		return r.Intn(n)
	}
	return 0
}

// GoGate is inserted by simgen at the start of goroutines launched by `go`
// statements (files opted in with "go_gates"): the order in which freshly
// started goroutines get going becomes a scheduler decision.
func GoGate(site string) { sim.Yield(sim.GateGo, site) }

// StmtGate is inserted by simgen between the statements of functions in files
// opted in with "stmt_gates": a goroutine may be descheduled between any two
// statements there, which exposes races on plain (unsynchronised) state that
// lock/atomic gates alone cannot show.
func StmtGate() { sim.Yield(sim.GateStmt, "stmt") }
